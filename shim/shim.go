// Package verifshim holds the seams that the verification overlay compiles into
// the repository's packages. It exists only inside `go build -overlay` builds made
// by /verif/check; it is never part of the repository.
//
// With no hook installed every function behaves exactly like the Go construct it
// replaces, except that map keys are delivered in sorted order (one of the orders
// the language allows).
package verifshim

import (
	"io"
	"os"
	"reflect"
	"sort"
)

// PermHook, when set, chooses the order in which the n sorted keys of the map
// ranged over at site are delivered. It returns a permutation of 0..n-1.
var PermHook func(n int, site string) []int

// SendHook, when set, replaces a channel send `ch <- v` of package parser.
var SendHook func(ch interface{}, v interface{})

// VisitHook, when set, is told about every dynamic visit of a ranged map (site, number of keys).
var VisitHook func(n int, site string)

// StringKeys returns the keys of m (a map with string keys) in the order chosen by PermHook.
func StringKeys(m interface{}, site string) []string {
	rv := reflect.ValueOf(m)
	if rv.Kind() != reflect.Map {
		panic("verifshim.StringKeys: not a map at " + site)
	}
	ks := rv.MapKeys()
	keys := make([]string, len(ks))
	for i, k := range ks {
		keys[i] = k.String()
	}
	sort.Strings(keys)
	if VisitHook != nil {
		VisitHook(len(keys), site)
	}
	if PermHook == nil || len(keys) < 2 {
		return keys
	}
	p := PermHook(len(keys), site)
	if len(p) != len(keys) {
		panic("verifshim: bad permutation length")
	}
	out := make([]string, len(keys))
	seen := make([]bool, len(keys))
	for i, j := range p {
		if j < 0 || j >= len(keys) || seen[j] {
			panic("verifshim: not a permutation")
		}
		seen[j] = true
		out[i] = keys[j]
	}
	return out
}

// SelCase is one case of a rewritten select statement.
type SelCase struct {
	Send bool
	Ch   interface{}
	Val  interface{}
}

// SelResult is the outcome of a rewritten select: Index of the chosen case (-1: default).
type SelResult struct {
	Index int
	Value interface{}
	Ok    bool
}

// SyncHook: set by the cooperative scheduler; called by the stand-ins of sync.WaitGroup / Mutex / RWMutex (package vsync)
// with the object, the operation (wg-add, wg-wait, lock, unlock, rlock, runlock) and the delta of wg-add. It returns
// false when the scheduler does not handle the call (then the real primitive is used).
var SyncHook func(obj interface{}, op string, n int) bool

// YieldHook: set by the cooperative scheduler; called by the stand-in of sync/atomic before every operation (a
// scheduling point at which the running thread may be preempted).
var YieldHook func()

// SelectHook, RecvHook, CloseHook, GoHook: set by the cooperative scheduler.
var SelectHook func(hasDefault bool, cases []SelCase) SelResult
var RecvHook func(ch interface{}) (interface{}, bool)
var CloseHook func(ch interface{})
var GoHook func(fn func())

func SendCase(ch interface{}, v interface{}) SelCase { return SelCase{Send: true, Ch: ch, Val: v} }
func RecvCase(ch interface{}) SelCase                { return SelCase{Ch: ch} }

// Select performs a select statement over the given cases.
func Select(hasDefault bool, cases ...SelCase) SelResult {
	if SelectHook != nil {
		return SelectHook(hasDefault, cases)
	}
	rc := make([]reflect.SelectCase, 0, len(cases)+1)
	for _, c := range cases {
		cv := reflect.ValueOf(c.Ch)
		if c.Send {
			var vv reflect.Value
			if c.Val == nil {
				vv = reflect.Zero(cv.Type().Elem())
			} else {
				vv = reflect.ValueOf(c.Val)
			}
			rc = append(rc, reflect.SelectCase{Dir: reflect.SelectSend, Chan: cv, Send: vv})
		} else {
			rc = append(rc, reflect.SelectCase{Dir: reflect.SelectRecv, Chan: cv})
		}
	}
	if hasDefault {
		rc = append(rc, reflect.SelectCase{Dir: reflect.SelectDefault})
	}
	i, v, ok := reflect.Select(rc)
	if hasDefault && i == len(cases) {
		return SelResult{Index: -1}
	}
	res := SelResult{Index: i, Ok: ok}
	if v.IsValid() {
		res.Value = v.Interface()
	}
	return res
}

// Recv performs <-ch.
func Recv(ch interface{}) (interface{}, bool) {
	if RecvHook != nil {
		return RecvHook(ch)
	}
	v, ok := reflect.ValueOf(ch).Recv()
	if !v.IsValid() {
		return nil, ok
	}
	return v.Interface(), ok
}

// Close performs close(ch).
func Close(ch interface{}) {
	if CloseHook != nil {
		CloseHook(ch)
		return
	}
	reflect.ValueOf(ch).Close()
}

// SinkHook: set by the cooperative scheduler; called before every write to the standard output.
var SinkHook func()

type stdoutWriter struct{}

func (stdoutWriter) Write(p []byte) (int, error) {
	if SinkHook != nil {
		SinkHook()
	}
	return os.Stdout.Write(p)
}

// StdoutWriter stands where the program says os.Stdout and an io.Writer is expected.
func StdoutWriter() io.Writer { return stdoutWriter{} }

// Go performs `go fn()`.
func Go(fn func()) {
	if GoHook != nil {
		GoHook(fn)
		return
	}
	go fn()
}

// Send performs ch <- v, or hands the operation to the cooperative scheduler.
func Send(ch interface{}, v interface{}) {
	if SendHook != nil {
		SendHook(ch, v)
		return
	}
	cv := reflect.ValueOf(ch)
	var vv reflect.Value
	if v == nil {
		vv = reflect.Zero(cv.Type().Elem())
	} else {
		vv = reflect.ValueOf(v)
	}
	cv.Send(vv)
}

// ---- package-level state of the repository -----------------------------------------------------------------------

var resetNames []string
var resetFns = map[string]func(){}

// RegisterReset is called from the generated init function of every rewritten package that has package-level variables.
func RegisterReset(pkg string, f func()) {
	if _, dup := resetFns[pkg]; !dup {
		resetNames = append(resetNames, pkg)
	}
	resetFns[pkg] = f
}

// ResetPackageState gives every registered package-level variable its initial value again.
func ResetPackageState() int {
	for _, n := range resetNames { // registration order = package initialisation order (dependencies first)
		resetFns[n]()
	}
	return len(resetNames)
}

// Zero sets *p to the zero value of its type.
func Zero(p interface{}) {
	v := reflect.ValueOf(p).Elem()
	v.Set(reflect.Zero(v.Type()))
}
