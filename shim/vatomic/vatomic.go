// Package atomic stands in for sync/atomic in the rewritten copies of the repository's files: every operation is first a
// scheduling point of the verification harness's cooperative scheduler (verifshim.YieldHook), then the real operation.
// An atomic variable is how goroutines talk to each other without a channel or a lock; without these points a flag set
// by one goroutine and polled by another could never be observed "in between".
package atomic

import (
	ra "sync/atomic"
	"unsafe"

	"github.com/aquilax/hranoprovod-cli/v3/verifshim"
)

func y() {
	if verifshim.YieldHook != nil {
		verifshim.YieldHook()
	}
}

type Value struct{ real ra.Value }

func (v *Value) Load() interface{}              { y(); return v.real.Load() }
func (v *Value) Store(x interface{})            { y(); v.real.Store(x) }
func (v *Value) Swap(x interface{}) interface{} { y(); return v.real.Swap(x) }
func (v *Value) CompareAndSwap(o, n interface{}) bool {
	y()
	return v.real.CompareAndSwap(o, n)
}

type Bool struct{ real ra.Bool }

func (b *Bool) Load() bool                    { y(); return b.real.Load() }
func (b *Bool) Store(v bool)                  { y(); b.real.Store(v) }
func (b *Bool) Swap(v bool) bool              { y(); return b.real.Swap(v) }
func (b *Bool) CompareAndSwap(o, n bool) bool { y(); return b.real.CompareAndSwap(o, n) }

func LoadPointer(addr *unsafe.Pointer) unsafe.Pointer     { y(); return ra.LoadPointer(addr) }
func StorePointer(addr *unsafe.Pointer, v unsafe.Pointer) { y(); ra.StorePointer(addr, v) }
func SwapPointer(addr *unsafe.Pointer, v unsafe.Pointer) unsafe.Pointer {
	y()
	return ra.SwapPointer(addr, v)
}
func CompareAndSwapPointer(addr *unsafe.Pointer, o, n unsafe.Pointer) bool {
	y()
	return ra.CompareAndSwapPointer(addr, o, n)
}

type Int32 struct{ real ra.Int32 }

func (x *Int32) Load() int32                    { y(); return x.real.Load() }
func (x *Int32) Store(v int32)                  { y(); x.real.Store(v) }
func (x *Int32) Swap(v int32) int32             { y(); return x.real.Swap(v) }
func (x *Int32) Add(d int32) int32              { y(); return x.real.Add(d) }
func (x *Int32) CompareAndSwap(o, n int32) bool { y(); return x.real.CompareAndSwap(o, n) }

func LoadInt32(addr *int32) int32          { y(); return ra.LoadInt32(addr) }
func StoreInt32(addr *int32, v int32)      { y(); ra.StoreInt32(addr, v) }
func SwapInt32(addr *int32, v int32) int32 { y(); return ra.SwapInt32(addr, v) }
func AddInt32(addr *int32, d int32) int32  { y(); return ra.AddInt32(addr, d) }
func CompareAndSwapInt32(addr *int32, o, n int32) bool {
	y()
	return ra.CompareAndSwapInt32(addr, o, n)
}

type Int64 struct{ real ra.Int64 }

func (x *Int64) Load() int64                    { y(); return x.real.Load() }
func (x *Int64) Store(v int64)                  { y(); x.real.Store(v) }
func (x *Int64) Swap(v int64) int64             { y(); return x.real.Swap(v) }
func (x *Int64) Add(d int64) int64              { y(); return x.real.Add(d) }
func (x *Int64) CompareAndSwap(o, n int64) bool { y(); return x.real.CompareAndSwap(o, n) }

func LoadInt64(addr *int64) int64          { y(); return ra.LoadInt64(addr) }
func StoreInt64(addr *int64, v int64)      { y(); ra.StoreInt64(addr, v) }
func SwapInt64(addr *int64, v int64) int64 { y(); return ra.SwapInt64(addr, v) }
func AddInt64(addr *int64, d int64) int64  { y(); return ra.AddInt64(addr, d) }
func CompareAndSwapInt64(addr *int64, o, n int64) bool {
	y()
	return ra.CompareAndSwapInt64(addr, o, n)
}

type Uint32 struct{ real ra.Uint32 }

func (x *Uint32) Load() uint32                    { y(); return x.real.Load() }
func (x *Uint32) Store(v uint32)                  { y(); x.real.Store(v) }
func (x *Uint32) Swap(v uint32) uint32            { y(); return x.real.Swap(v) }
func (x *Uint32) Add(d uint32) uint32             { y(); return x.real.Add(d) }
func (x *Uint32) CompareAndSwap(o, n uint32) bool { y(); return x.real.CompareAndSwap(o, n) }

func LoadUint32(addr *uint32) uint32           { y(); return ra.LoadUint32(addr) }
func StoreUint32(addr *uint32, v uint32)       { y(); ra.StoreUint32(addr, v) }
func SwapUint32(addr *uint32, v uint32) uint32 { y(); return ra.SwapUint32(addr, v) }
func AddUint32(addr *uint32, d uint32) uint32  { y(); return ra.AddUint32(addr, d) }
func CompareAndSwapUint32(addr *uint32, o, n uint32) bool {
	y()
	return ra.CompareAndSwapUint32(addr, o, n)
}

type Uint64 struct{ real ra.Uint64 }

func (x *Uint64) Load() uint64                    { y(); return x.real.Load() }
func (x *Uint64) Store(v uint64)                  { y(); x.real.Store(v) }
func (x *Uint64) Swap(v uint64) uint64            { y(); return x.real.Swap(v) }
func (x *Uint64) Add(d uint64) uint64             { y(); return x.real.Add(d) }
func (x *Uint64) CompareAndSwap(o, n uint64) bool { y(); return x.real.CompareAndSwap(o, n) }

func LoadUint64(addr *uint64) uint64           { y(); return ra.LoadUint64(addr) }
func StoreUint64(addr *uint64, v uint64)       { y(); ra.StoreUint64(addr, v) }
func SwapUint64(addr *uint64, v uint64) uint64 { y(); return ra.SwapUint64(addr, v) }
func AddUint64(addr *uint64, d uint64) uint64  { y(); return ra.AddUint64(addr, d) }
func CompareAndSwapUint64(addr *uint64, o, n uint64) bool {
	y()
	return ra.CompareAndSwapUint64(addr, o, n)
}

type Uintptr struct{ real ra.Uintptr }

func (x *Uintptr) Load() uintptr                    { y(); return x.real.Load() }
func (x *Uintptr) Store(v uintptr)                  { y(); x.real.Store(v) }
func (x *Uintptr) Swap(v uintptr) uintptr           { y(); return x.real.Swap(v) }
func (x *Uintptr) Add(d uintptr) uintptr            { y(); return x.real.Add(d) }
func (x *Uintptr) CompareAndSwap(o, n uintptr) bool { y(); return x.real.CompareAndSwap(o, n) }

func LoadUintptr(addr *uintptr) uintptr            { y(); return ra.LoadUintptr(addr) }
func StoreUintptr(addr *uintptr, v uintptr)        { y(); ra.StoreUintptr(addr, v) }
func SwapUintptr(addr *uintptr, v uintptr) uintptr { y(); return ra.SwapUintptr(addr, v) }
func AddUintptr(addr *uintptr, d uintptr) uintptr  { y(); return ra.AddUintptr(addr, d) }
func CompareAndSwapUintptr(addr *uintptr, o, n uintptr) bool {
	y()
	return ra.CompareAndSwapUintptr(addr, o, n)
}
