// Package sync stands in for the standard package sync in the rewritten copies of the repository's files (import path
// rewritten by /verif/driver/rewrite.go). WaitGroup, Mutex and RWMutex cooperate with the scheduler of the verification
// harness when one is active (verifshim.SyncHook) and are the real thing otherwise; the rest is aliased.
package sync

import (
	rs "sync"

	"github.com/aquilax/hranoprovod-cli/v3/verifshim"
)

type Locker = rs.Locker
type Map = rs.Map
type Pool = rs.Pool
type Cond = rs.Cond
type Once = rs.Once

func NewCond(l Locker) *Cond { return rs.NewCond(l) }

type WaitGroup struct{ real rs.WaitGroup }

func (w *WaitGroup) Add(delta int) {
	if verifshim.SyncHook != nil && verifshim.SyncHook(w, "wg-add", delta) {
		return
	}
	w.real.Add(delta)
}
func (w *WaitGroup) Done() { w.Add(-1) }
func (w *WaitGroup) Wait() {
	if verifshim.SyncHook != nil && verifshim.SyncHook(w, "wg-wait", 0) {
		return
	}
	w.real.Wait()
}

type Mutex struct{ real rs.Mutex }

func (m *Mutex) Lock() {
	if verifshim.SyncHook != nil && verifshim.SyncHook(m, "lock", 0) {
		return
	}
	m.real.Lock()
}
func (m *Mutex) Unlock() {
	if verifshim.SyncHook != nil && verifshim.SyncHook(m, "unlock", 0) {
		return
	}
	m.real.Unlock()
}

type RWMutex struct{ real rs.RWMutex }

func (m *RWMutex) Lock() {
	if verifshim.SyncHook != nil && verifshim.SyncHook(m, "lock", 0) {
		return
	}
	m.real.Lock()
}
func (m *RWMutex) Unlock() {
	if verifshim.SyncHook != nil && verifshim.SyncHook(m, "unlock", 0) {
		return
	}
	m.real.Unlock()
}
func (m *RWMutex) RLock() {
	if verifshim.SyncHook != nil && verifshim.SyncHook(m, "rlock", 0) {
		return
	}
	m.real.RLock()
}
func (m *RWMutex) RUnlock() {
	if verifshim.SyncHook != nil && verifshim.SyncHook(m, "runlock", 0) {
		return
	}
	m.real.RUnlock()
}
func (m *RWMutex) RLocker() Locker { return (*rlocker)(m) }

type rlocker RWMutex

func (r *rlocker) Lock()   { (*RWMutex)(r).RLock() }
func (r *rlocker) Unlock() { (*RWMutex)(r).RUnlock() }
