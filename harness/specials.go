package main

// Special scenarios: one small book + log per input dimension that some seeded change (or some defect of the pinned
// tree) needed in order to show. Every check whose oracle is differential - the program against itself under another
// presentation, order, split or restriction - runs all of them, so that a dimension discovered through one property is
// exercised under all the others ("one departure from the ordinary input at a time").
//
// Exact: every quantity, coefficient and product is a multiple of 1/4 (or 1/8 where noted) of moderate size and finite,
// so sums of printed two-decimal numbers are exact and reports may be added up and compared as decimals. Scenarios
// that are not Exact are only fed to oracles that compare a run with another run of the same values.

import (
	"fmt"
	"math"
	"strings"
)

type specialScenario struct {
	Name  string
	Book  absBook
	Log   absLog
	Exact bool
}

var specialBaseBook = absBook{
	{"r1", []absIng{{"cal", 2}, {"fat", -0.5}}},
	{"r2", []absIng{{"r1", 2}, {"prot", 1}}},
	{"empty", nil},
}

func specialBaseLog() absLog {
	return absLog{
		{Date: "2021/01/24", Entries: []absIng{{"r1", 1}, {"u", 2}, {"r1", 0.5}}},
		{Date: "2021/01/25", Entries: []absIng{{"r2", 1}, {"a/b", 2}, {"a/c", 1}}},
	}
}

func bookPlus(extra ...absRecipe) absBook {
	b := append(absBook{}, specialBaseBook...)
	return append(b, extra...)
}

func logPlus(day1, day2 []absIng) absLog {
	l := specialBaseLog()
	l[0].Entries = append(l[0].Entries, day1...)
	l[1].Entries = append(l[1].Entries, day2...)
	return l
}

func specialScenarios() []specialScenario {
	var out []specialScenario
	add := func(name string, exact bool, b absBook, l absLog) {
		out = append(out, specialScenario{name, b, l, exact})
	}
	add("base", true, specialBaseBook, specialBaseLog())
	// ---- names
	add("names-punctuation", true, bookPlus(absRecipe{"m&m's <x>+y \"z\" 1", []absIng{{"sugar & <spice>", 2}, {"cal", 1}}}),
		logPlus([]absIng{{"m&m's <x>+y \"z\" 1", 1}, {"fish & chips <x> 'y'", 2}}, []absIng{{"50% off + tax", 1}, {"a,b;c", 1}}))
	add("names-inner-blanks-and-tabs", true, bookPlus(absRecipe{"two  blanks", []absIng{{"el  with  blanks", 2}}}),
		logPlus([]absIng{{"two  blanks", 1}, {"tab\tinside", 2}}, []absIng{{"three   blanks here", 1}}))
	add("names-non-ascii-final-bytes", true, bookPlus(absRecipe{"орех", []absIng{{"мазнина", 2}, {"voilà", 1}}}),
		logPlus([]absIng{{"орех", 1}, {"voilà", 2}, {"ハム", 1}}, []absIng{{"mąką", 1}, {"ел 2", 2}, {"ψωμιου", 1}}))
	add("names-empty-path-segments", true, bookPlus(absRecipe{"k/", []absIng{{"cal", 1}}}, absRecipe{"k/r1", []absIng{{"cal", 4}}}),
		logPlus([]absIng{{"k/", 1}, {"k/r1", 2}, {"k", 1}}, []absIng{{"/k", 1}, {"k//r1", 2}, {"tea/", 1}, {"tea", 1}}))
	add("names-prefix-and-case-pairs", true, bookPlus(absRecipe{"bread", []absIng{{"cal", 2}}}, absRecipe{"bread/rye", []absIng{{"cal", 3}, {"Cal", 1}}}),
		logPlus([]absIng{{"coffee", 1}, {"coffee/cup", 2}, {"Coffee", 1}, {"bread", 1}}, []absIng{{"coffee/cup/large", 1}, {"coffee/cup", 1}, {"bread/rye", 2}, {"Bread", 1}}))
	add("names-continued-below-the-separator", true, bookPlus(absRecipe{"coffee-decaf/cup", []absIng{{"cal", 1}}}, absRecipe{"coffee/cup", []absIng{{"cal", 2}}},
		absRecipe{"bread rolls", []absIng{{"cal", 3}}}, absRecipe{"bread", []absIng{{"cal", 2}, {"cal extra", 1}}}, absRecipe{"soup, clear", []absIng{{"cal", 1}}}, absRecipe{"soup", []absIng{{"cal", 4}}},
		absRecipe{"a!b", []absIng{{"fat", 1}}}, absRecipe{"a", []absIng{{"fat", 2}, {"fat (sat)", 1}}}, absRecipe{"a+b", []absIng{{"fat", 4}}}),
		logPlus([]absIng{{"coffee/cup", 1}, {"coffee-decaf/cup", 2}, {"milk 2%/glass", 1}, {"milk/glass", 2}}, []absIng{{"ice.cream/cone", 1}, {"ice/cube", 4}, {"coffee/cup", 1}, {"a!b/c", 1}, {"a/c", 2}}))
	// deep category paths (18, 20 and 34 segments; a fork at the bottom of the deepest one)
	{
		seg := func(n int) string {
			var parts []string
			for i := 1; i <= n; i++ {
				parts = append(parts, fmt.Sprintf("l%02d", i))
			}
			return strings.Join(parts, "/")
		}
		add("names-deep-category-paths", true, bookPlus(absRecipe{seg(20) + "/apple", []absIng{{"cal", 2}}}),
			logPlus([]absIng{{seg(20) + "/apple", 1}, {seg(20) + "/pear", 2}, {seg(17) + "/x", 1}}, []absIng{{seg(34) + "/deep", 1}, {seg(33) + "/fork", 2}, {seg(18), 1}}))
	}
	add("names-repeated-segment", true, specialBaseBook, logPlus([]absIng{{"tea/tea", 2}, {"bread/white/bread/slice", 1}}, []absIng{{"bread/white/bread/loaf", 1}, {"tea/tea/tea", 1}}))
	name23, name30 := "cheese/gouda/aged/slice", "a/rather/long/name/of/30/chars"
	add("names-lengths-around-the-columns", true, bookPlus(absRecipe{name30, []absIng{{"an element of 22 chars", 2}, {"cal", 1}}}),
		logPlus([]absIng{{name23, 1}, {name30, 2}}, []absIng{{name23 + "/and/then/some/more", 1}, {"exactly/twenty/chars", 1}, {"exactly/27/characters/long!", 1}}))
	// the same with letters of two bytes: names that fit a column in characters and not in bytes (12, 17, 20 letters), and
	// names one letter beyond each column (21, 28)
	{
		cyr := func(n int) string {
			return string([]rune("въглехидрати/кисело/мляко/чаша/и/още/нещо")[:n])
		}
		add("names-two-byte-letters-around-the-columns", true, bookPlus(absRecipe{cyr(17), []absIng{{cyr(12), 2}, {"е" + cyr(19), 1}, {"cal", 1}}}),
			logPlus([]absIng{{cyr(17), 1}, {cyr(20), 2}, {cyr(27), 1}}, []absIng{{cyr(21), 1}, {cyr(28), 2}, {cyr(12), 1}, {"backslash\\in\\a name\\t", 1}}))
	}
	// long names that shorten to the same text, or whose shortened forms sort otherwise than the names themselves
	add("names-that-collide-or-swap-when-shortened", true, bookPlus(absRecipe{"salad/mixed", []absIng{{"vegetables/lettuce/romaine/100g", 1}, {"vegetables/tomato/cherry/100g", 2}, {"cal", 1}}}),
		logPlus([]absIng{{"soup/chicken/large/bowl/300g", 1}, {"soup/chicken/small/bowl/300g", 2}, {"salad/mixed", 1}}, []absIng{{"soup/chicken/small/bowl/300g", 1}, {"soup/chicken/large/bowl/300g", -1}, {"salad/mixed", 2}}))
	long := strings.Repeat("long/name ", 450) + "end"
	add("names-beyond-4096-bytes", true, bookPlus(absRecipe{"z" + long, []absIng{{"e" + long, 2}}}), logPlus([]absIng{{long, 1}}, []absIng{{"z" + long, 2}, {long, 1}}))
	add("names-that-look-like-something-else", true, bookPlus(absRecipe{"today", []absIng{{"cal", 1}}}, absRecipe{"cal", []absIng{{"fat", 3}}}),
		logPlus([]absIng{{"2021/01/24", 1}, {"1e3", 2}, {"NaN", 1}, {"today", 1}}, []absIng{{"cal", 2}, {"fat", 1}, {"r1", 1}}))
	// ---- quantities
	add("quantities-zero-and-cancelling", true, bookPlus(absRecipe{"z0", []absIng{{"cal", 0}, {"fat", 1}}}, absRecipe{"z1", []absIng{{"r1", 0}, {"prot", 2}}}),
		logPlus([]absIng{{"u", -2}, {"z0", 1}, {"zero", 0}, {"r1", -1.5}}, []absIng{{"z1", 1}, {"r2", 0}, {"neg0", math.Copysign(0, -1)}, {"a/b", -2}}))
	add("quantities-on-rounding-ties", false, bookPlus(absRecipe{"ties", []absIng{{"a", 0.25}, {"b", -0.25}, {"c", 1.115}, {"d", 2.675}, {"e", 1.005}}}),
		logPlus([]absIng{{"ties", 0.5}, {"direct", 0.125}}, []absIng{{"ties", 1.5}, {"direct", 1.115}, {"tiny", 0.004}, {"tinyneg", -0.004}}))
	// amounts of one food that differ below the printed precision (0.333 and 0.334; 1.251 and 1.254; 0.001 and 0), on
	// different days and twice on the same date: whatever is remembered per food and printed amount is remembered wrongly
	add("quantities-equal-at-the-printed-precision", false, bookPlus(absRecipe{"rye", []absIng{{"cal", 259}, {"prot", 8.5}}}),
		absLog{{Date: "2021/03/01", Entries: []absIng{{"rye", 0.333}, {"r1", 1.251}, {"u", 0.001}}}, {Date: "2021/03/02", Entries: []absIng{{"rye", 0.334}, {"r1", 1.254}, {"u", 0}}},
			{Date: "2021/03/02", Entries: []absIng{{"rye", 0.3349}, {"r2", 0.004}}}, {Date: "2021/03/03", Entries: []absIng{{"rye", 0.3351}, {"r2", 0}}}})
	add("quantities-long-and-extreme", false, bookPlus(absRecipe{"big", []absIng{{"cal", 94.05090880450125}, {"fat", 1e15}}}),
		logPlus([]absIng{{"big", 1}, {"many/digits", 30.091186058528706}, {"huge", 9007199254740993}}, []absIng{{"small", 1e-7}, {"big", 0.001}}))
	add("quantities-non-finite", false, bookPlus(absRecipe{"nf", []absIng{{"cal", math.Inf(1)}, {"fat", math.NaN()}}}),
		logPlus([]absIng{{"nf", 1}, {"water", math.NaN()}}, []absIng{{"milk", math.Inf(1)}, {"milk", math.Inf(-1)}, {"nf", 2}}))
	add("coefficients-one-zero-minus", true, bookPlus(absRecipe{"once", []absIng{{"r1", 1}, {"cal", 1}}}, absRecipe{"never", []absIng{{"r1", 0}, {"r2", -1}}}),
		logPlus([]absIng{{"once", 1}, {"never", 2}}, []absIng{{"once", -1}, {"never", 0}}))
	// ---- dates
	add("dates-that-collide-under-sloppy-keys", true, specialBaseBook, absLog{
		{Date: "2020/12/31", Entries: []absIng{{"r1", 1}, {"u", 1}}}, {Date: "2021/01/01", Entries: []absIng{{"r1", 2}}},
		{Date: "2020/01/25", Entries: []absIng{{"r2", 1}}}, {Date: "2021/01/25", Entries: []absIng{{"u", 2}, {"r1", 1}}},
		{Date: "2021/02/25", Entries: []absIng{{"r1", 4}}}, {Date: "2021/01/25", Entries: []absIng{{"r1", 8}}}})
	add("dates-far-away", true, specialBaseBook, absLog{
		{Date: "1969/12/31", Entries: []absIng{{"r1", 1}}}, {Date: "1970/01/01", Entries: []absIng{{"u", 1}}},
		{Date: "2000/02/29", Entries: []absIng{{"r2", 2}}}, {Date: "2038/01/19", Entries: []absIng{{"r1", 2}}}, {Date: "2262/04/12", Entries: []absIng{{"r1", 4}}},
		// (days further apart than a time.Duration can hold: about 292 years)
		{Date: "0001/01/01", Entries: []absIng{{"r1", 8}}}, {Date: "1700/01/01", Entries: []absIng{{"u", 4}}}, {Date: "9999/12/31", Entries: []absIng{{"r1", 16}}}, {Date: "2021/01/24", Entries: []absIng{{"r1", 32}}}})
	add("days-with-and-without-notes", true, specialBaseBook, absLog{
		{Date: "2021/01/24", Entries: []absIng{{"r1", 1}}, Notes: []absNote{{"mood", "ok"}, {"", "50% done"}}},
		{Date: "2021/01/25", Entries: []absIng{{"u", 2}}},
		{Date: "2021/01/26", Notes: []absNote{{"weight", "81.5"}}},
		{Date: "2021/01/27", Entries: []absIng{{"r2", 1}}}})
	add("empty-days-and-empty-recipes", true, specialBaseBook, absLog{
		{Date: "2021/01/24"}, {Date: "2021/01/25", Entries: []absIng{{"empty", 2}, {"r1", 1}}}, {Date: "2021/01/26"}, {Date: "2021/01/26", Entries: []absIng{{"empty", 1}}}})
	// ---- shapes of a day
	add("merge-shapes", true, specialBaseBook, absLog{
		{Date: "2021/01/24", Entries: []absIng{{"x", 1}, {"y", 2}, {"x", 4}, {"x", 8}}},
		{Date: "2021/01/25", Entries: []absIng{{"x", 1}, {"x", 2}, {"y", 4}, {"y", 8}}},
		{Date: "2021/01/26", Entries: []absIng{{"r1", 1}, {"u", 2}, {"z", 4}, {"r1", 8}, {"u", 16}}},
		{Date: "2021/01/27", Entries: []absIng{{"y", 1}, {"x", 2}}}, {Date: "2021/01/28", Entries: []absIng{{"x", 2}, {"y", 1}}}})
	var wide1, wide2 []absIng
	for j := 0; j < 40; j++ {
		wide1 = append(wide1, absIng{fmt.Sprintf("el/%03d", (j*7)%150), float64(1 + j%4)})
	}
	for j := 0; j < 70; j++ {
		wide2 = append(wide2, absIng{fmt.Sprintf("el/%03d", (j*11+3)%150), float64(1 + j%3)})
	}
	add("wide-days", true, specialBaseBook, absLog{{Date: "2021/01/24", Entries: append(wide1, absIng{"el/000", 0.5})}, {Date: "2021/01/25", Entries: wide2}, {Date: "2021/01/26", Entries: []absIng{{"r1", 1}}}})
	wideRecipe := absRecipe{Name: "wide"}
	for j := 0; j < 40; j++ {
		wideRecipe.Ings = append(wideRecipe.Ings, absIng{fmt.Sprintf("element %02d", (j*7)%40), float64(1 + j%4)})
	}
	many := absRecipe{Name: "many"}
	manyBook := bookPlus(wideRecipe)
	for j := 0; j < 20; j++ {
		n := fmt.Sprintf("part%02d", j)
		many.Ings = append(many.Ings, absIng{n, 1})
		manyBook = append(manyBook, absRecipe{n, []absIng{{"cal", 1}, {fmt.Sprintf("e%02d", j%7), 2}}})
	}
	manyBook = append(manyBook, many)
	add("wide-recipes", true, manyBook, logPlus([]absIng{{"wide", 1}}, []absIng{{"many", 2}, {"wide", 0.5}}))
	deep := append(absBook{}, specialBaseBook...)
	for j := 1; j <= 8; j++ {
		next := fmt.Sprintf("d%d", j+1)
		if j == 8 {
			next = "cal"
		}
		deep = append(deep, absRecipe{fmt.Sprintf("d%d", j), []absIng{{next, 1}, {"fat", 1}}})
	}
	add("deep-book", true, deep, logPlus([]absIng{{"d1", 1}}, []absIng{{"d4", 2}}))
	add("repeated-heading-in-the-book", true, append(bookPlus(absRecipe{"twice", []absIng{{"cal", 1}}}), absRecipe{"twice", []absIng{{"fat", 2}}}), logPlus([]absIng{{"twice", 1}}, nil))
	add("flat-book-unsorted-and-repeated-elements", true, absBook{{"porridge", []absIng{{"protein", 4}, {"fat", 2}, {"protein", 1.5}, {"calories", 90}}}, {"tea", []absIng{{"water", 2}, {"calories", 1}}}},
		absLog{{Date: "2021/01/24", Entries: []absIng{{"porridge", 1}, {"tea", 2}}}, {Date: "2021/01/25", Entries: []absIng{{"tea", 1}}}})
	add("element-that-is-also-a-food", true, bookPlus(absRecipe{"toast", []absIng{{"r1", 1}, {"butter", 0.5}}}, absRecipe{"butter", []absIng{{"fat", 8}}}),
		logPlus([]absIng{{"toast", 1}, {"butter", 0.25}, {"fat", 1}}, []absIng{{"cal", 2}, {"toast", 2}}))
	// ---- spellings of a number: the same quantities written with a leading point, a trailing point, a plus sign, an
	// exponent, trailing zeros, leading zeros (in the log and in the book; every product stays a multiple of 1/4, also when
	// the two uses of the recipe fall into one day)
	{
		sp := func(name string, v float64, text string) absIng {
			i := absIng{name, v}
			ingText[i] = text
			return i
		}
		add("quantities-spelt-unusually", true, bookPlus(absRecipe{"spelt/recipe", []absIng{sp("cal", 0.5, ".5"), sp("fat", 5, "5."), sp("prot", 4, "+4"), sp("salt", 25, "2.5e1"), sp("fibre", 1.5, "1.50"), sp("sugar", 7, "007")}}),
			logPlus([]absIng{sp("spelt/leading-point", 0.5, ".5"), sp("spelt/recipe", 2, "2."), sp("spelt/plus", 4, "+4.0")}, []absIng{sp("spelt/exponent", 250, "2.5e2"), sp("spelt/negative-point", -0.5, "-.5"), sp("spelt/recipe", 0.5, ".5"), sp("spelt/zeros", 3, "03.00")}))
	}
	// ---- names next to other names: an unknown food that differs from recipes of the book only in its last segment (two
	// equally close recipes of equal length), in case, or by a blank next to a separator; names that begin with = + @
	add("names-near-misses-of-recipes", true, bookPlus(absRecipe{"bread/rye/100g", []absIng{{"cal", 2}}}, absRecipe{"bread/rye/loaf", []absIng{{"cal", 8}}}, absRecipe{"coffee/cup", []absIng{{"cal", 1}}}, absRecipe{"coffee/mug", []absIng{{"cal", 2}}}),
		logPlus([]absIng{{"bread/rye/slice", 1}, {"coffee", 2}, {"Coffee/cup", 1}, {"coffee /cup", 2}}, []absIng{{"coffee/cup", 1}, {"tea/green /large", 4}, {"tea / x", 1}, {"bread/rye/100G", 1}, {"=water", 1}, {"+vitamin c", 2}, {"@mg", 1}}))
	// ---- size (beyond any "small input" shortcut a command might take: more than 64, 128, 256 days or recipes)
	{
		var lg absLog
		foods := []string{"r1", "r2", "u", "a/b", "a/c", "empty", "x/y/z"}
		for d := 0; d < 300; d++ {
			date := fmt.Sprintf("20%02d/%02d/%02d", 21+d/336, 1+(d/28)%12, 1+d%28)
			switch {
			case d == 70 || d == 200:
				date = "2021/01/05" // a date that is there already (day 4), twice more, far apart
			case d%97 == 50:
				date = fmt.Sprintf("2019/%02d/15", 1+d/97) // out of order: earlier than everything around it
			}
			day := absDay{Date: date}
			for e := 0; e <= d%3; e++ {
				day.Entries = append(day.Entries, absIng{foods[(d+e*3)%len(foods)], float64(1+(d+e)%5) * 0.5 * float64(1-2*((d+e)%7/6))})
			}
			lg = append(lg, day)
		}
		add("many-days", true, specialBaseBook, lg)
		book := append(absBook{}, specialBaseBook...)
		book = append(book, absRecipe{"shared", []absIng{{"r1", 1}, {"salt", 0.5}}})
		var entries1, entries2 []absIng
		for r := 0; r < 150; r++ {
			rec := absRecipe{fmt.Sprintf("dish/%03d", r), []absIng{{"shared", float64(1 + r%4)}, {fmt.Sprintf("el-%d", r%7), 1.5}}}
			if r%10 == 9 {
				rec.Ings = append(rec.Ings, absIng{fmt.Sprintf("dish/%03d", r-1), 1}) // a third level
			}
			book = append(book, rec)
			if r%2 == 0 {
				entries1 = append(entries1, absIng{rec.Name, float64(1+r%3) * 0.5})
			} else {
				entries2 = append(entries2, absIng{rec.Name, -0.5})
			}
		}
		add("many-recipes", true, book, logPlus(entries1, entries2))
	}
	add("empty-book", true, absBook{}, specialBaseLog())
	add("empty-log", true, specialBaseBook, absLog{})
	return out
}

// specialPairs: every unordered pair of special scenarios merged into one input (the recipes of both books - the second
// book's recipes under names the first one does not use - and the days of both logs, in both orders of the logs):
// two departures from the ordinary input at a time. Used by the thorough tiers.
func specialPairs() []specialScenario {
	base := specialScenarios()
	var out []specialScenario
	for i := 1; i < len(base); i++ { // (0 is the base scenario itself)
		for j := i + 1; j < len(base); j++ {
			a, b := base[i], base[j]
			if strings.HasPrefix(a.Name, "empty-") || strings.HasPrefix(b.Name, "empty-") || a.Name == "repeated-heading-in-the-book" || b.Name == "repeated-heading-in-the-book" {
				continue
			}
			used := map[string]bool{}
			book := append(absBook{}, a.Book...)
			for _, r := range a.Book {
				used[r.Name] = true
			}
			clash := false
			for _, r := range b.Book {
				if used[r.Name] {
					// the same name in both books: keep the pair only if both define it identically (the base recipes)
					same := false
					for _, ar := range a.Book {
						if ar.Name == r.Name && fmt.Sprint(ar.Ings) == fmt.Sprint(r.Ings) {
							same = true
						}
					}
					if !same {
						clash = true
					}
					continue
				}
				used[r.Name] = true
				book = append(book, r)
			}
			if clash {
				continue
			}
			for order := 0; order < 2; order++ {
				lg := append(append(absLog{}, a.Log...), b.Log...)
				if order == 1 {
					lg = append(append(absLog{}, b.Log...), a.Log...)
				}
				out = append(out, specialScenario{Name: fmt.Sprintf("%s + %s (%d)", a.Name, b.Name, order), Book: book, Log: lg, Exact: a.Exact && b.Exact})
			}
		}
	}
	return out
}

// specialsFor: the scenarios of a tier (thorough: singles and pairs).
func specialsFor(tier string) []specialScenario {
	s := specialScenarios()
	if tier == "thorough" {
		s = append(s, specialPairs()...)
	}
	return s
}
