package main

import (
	"fmt"
	"io"
	"io/ioutil"
	"os"
	"strings"
	"time"

	shared "github.com/aquilax/hranoprovod-cli/v3"
	"github.com/aquilax/hranoprovod-cli/v3/parser"
	"github.com/aquilax/hranoprovod-cli/v3/verifshim"
)

func init() { propChecks["C18"] = checkC18 }

type c18Input struct {
	Name   string
	Text   string
	File   string // non-empty: ParseFile on this path
	FailAt int    // >= 0: the reader fails at this offset
	// Transient: ... once, with an error that calls itself temporary; the following reads succeed
	Transient bool
	// EmptyName: ParseFile("")
	EmptyName bool
	// Comment: the comment character the parser is configured with (0: the default #)
	Comment byte
}

// config: the parser configuration this input is read under (by the channel parser and by the reference alike)
func (in c18Input) config() parser.Config {
	c := parser.NewDefaultConfig()
	if in.Comment != 0 {
		c.CommentChar = in.Comment
	}
	return c
}

// c18ThirdUse: the Parser value has been used twice before (second-use-of-a-parser explores both).
var c18ThirdUse = false

// c18ConsumerParses: the consumer parses c18OtherInput with the callback parser after every record it receives.
var c18ConsumerParses = false
var c18OtherInput = func() string {
	var sb strings.Builder
	for r := 0; r < 120; r++ {
		sb.WriteString(fmt.Sprintf("other%03d:\n  protein: %d\n  fat\n", r, r)) // (with malformed lines)
	}
	return sb.String()
}()

// isFile: the input is a path given to ParseFile (possibly the empty path).
func (in c18Input) isFile() bool { return in.File != "" || in.EmptyName }

func c18Inputs(tier string) []c18Input {
	good := []string{"a:\n  x: 1\n", "b:\n  y: 2\n  z: 3\n", "c:\n"}
	bads := []string{"  nosep\n", "  q: abc\n"}
	var ins []c18Input
	ins = append(ins, c18Input{Name: "empty", Text: "", FailAt: -1})
	for n := 1; n <= 3; n++ {
		ins = append(ins, c18Input{Name: fmt.Sprintf("%d-records", n), Text: strings.Join(good[:n], ""), FailAt: -1})
	}
	// one error at each line position of the 3-record file, both kinds
	lines := strings.SplitAfter(strings.Join(good, ""), "\n")
	lines = lines[:len(lines)-1]
	for pos := 1; pos <= len(lines); pos++ {
		for bi, b := range bads {
			t := strings.Join(lines[:pos], "") + b + strings.Join(lines[pos:], "")
			ins = append(ins, c18Input{Name: fmt.Sprintf("error-kind%d-after-line-%d", bi, pos), Text: t, FailAt: -1})
		}
	}
	// records with notes (the consumer keeps the nodes: their notes must still be theirs when the stream is over)
	ins = append(ins, c18Input{Name: "three-records-with-notes", Text: "a:\n  # place: home\n  # mood: fine\n  x: 1\nb:\n  # place: office\n  y: 2\nc:\n  # free text\n  z: 3\n", FailAt: -1})
	ins = append(ins, c18Input{Name: "notes-then-error", Text: "a:\n  # place: home\n  x: 1\nb:\n  # place: office\n  nosep\n", FailAt: -1})
	// two and three errors
	ins = append(ins, c18Input{Name: "two-errors", Text: "a:\n  nosep\n  x: 1\nb:\n  q: abc\n", FailAt: -1})
	ins = append(ins, c18Input{Name: "three-errors", Text: "a:\n  nosep\n  q: abc\n  alsonosep\nb:\n  y: 1\n", FailAt: -1})
	ins = append(ins, c18Input{Name: "error-in-last-line-no-newline", Text: "a:\n  x: 1\n  nosep", FailAt: -1})
	ins = append(ins, c18Input{Name: "error-first-entry", Text: "a:\n  nosep\n", FailAt: -1})
	var bigIn strings.Builder
	for r := 0; r < 160; r++ {
		bigIn.WriteString(fmt.Sprintf("rec%03d:\n  element/%d: %d\n  second %d: 1\n", r, r, r, r))
	}
	ins = append(ins, c18Input{Name: "160-records-6KB", Text: bigIn.String(), FailAt: -1})
	ins = append(ins, c18Input{Name: "160-records-then-error", Text: bigIn.String() + "last:\n  nosep\n", FailAt: -1})
	// a parse error with a scanner-level error right behind it (the next Scan fails): the first error is the parse error
	ins = append(ins, c18Input{Name: "error-then-over-long-line", Text: "a:\n  x: 1\n  nosep\n  " + strings.Repeat("n", 70000) + ": 1\nb:\n  y: 2\n", FailAt: -1})
	errText := "a:\n  x: 1\n  nosep\nb:\n  y: 2\n"
	for _, k := range []int{len("a:\n  x: 1\n  nosep\n"), len("a:\n  x: 1\n  nosep\n") + 1, len("a:\n  x: 1\n  nosep")} {
		ins = append(ins, c18Input{Name: fmt.Sprintf("error-then-reader-fails-at-%d", k), Text: errText, FailAt: k})
	}
	// unreadable
	ins = append(ins, c18Input{Name: "nonexistent-file", File: "/nonexistent/verif/file.yaml", FailAt: -1})
	ins = append(ins, c18Input{Name: "directory-as-file", File: os.TempDir(), FailAt: -1})
	// the other ways in which opening fails: a path through a regular file, an over-long name, a loop of links
	if exe, err := os.Executable(); err == nil {
		ins = append(ins, c18Input{Name: "path-through-a-regular-file", File: exe + "/log.yaml", FailAt: -1})
	}
	// spellings of a name that a lexical clean-up would change: the operating system resolves them component by component
	if base := loopDirFor(); base != "" {
		os.MkdirAll(base+"/dir", 0o755)
		os.MkdirAll(base+"/other/sub", 0o755)
		ioutil.WriteFile(base+"/dir/log.yaml", []byte("a:\n  x: 1\nb:\n  y: 2\n"), 0o644)
		ioutil.WriteFile(base+"/other/log.yaml", []byte("other:\n  z: 3\n"), 0o644)
		os.Symlink(base+"/other/sub", base+"/dir/link")
		ins = append(ins, c18Input{Name: "dotdot-after-a-missing-directory", File: base + "/dir/missing/../log.yaml", FailAt: -1})
		ins = append(ins, c18Input{Name: "separator-after-a-regular-file", File: base + "/dir/log.yaml/", FailAt: -1})
		ins = append(ins, c18Input{Name: "dotdot-after-a-symbolic-link-to-a-directory", File: base + "/dir/link/../log.yaml", FailAt: -1})
		ins = append(ins, c18Input{Name: "doubled-separators-and-dots", File: base + "/./dir//./log.yaml", FailAt: -1})
		ins = append(ins, c18Input{Name: "empty-name", EmptyName: true, FailAt: -1})
		// a parser configured with another comment character (a configuration is part of the parser, whichever way the input
		// reaches it): a file and a stream in which ; comments and # is a letter
		semi := "; my food log\na:\n  ; note: x\n  x: 1\n#hash:\n  #y: 2\n  ; just text\nb:\n  z: 3\n"
		ioutil.WriteFile(base+"/dir/semi.yaml", []byte(semi), 0o644)
		ins = append(ins, c18Input{Name: "semicolon-comments-file", File: base + "/dir/semi.yaml", FailAt: -1, Comment: ';'})
		ins = append(ins, c18Input{Name: "semicolon-comments-stream", Text: semi, FailAt: -1, Comment: ';'})
		ins = append(ins, c18Input{Name: "semicolon-comments-stream-with-error", Text: semi + "  nosep\n", FailAt: -1, Comment: ';'})
	}
	ins = append(ins, c18Input{Name: "name-too-long", File: os.TempDir() + "/" + strings.Repeat("n", 300) + ".yaml", FailAt: -1})
	loopDir := loopDirFor()
	loop := fmt.Sprintf("%s/verif-c18-loop-%d", loopDir, os.Getpid())
	os.Symlink(loop, loop)
	if _, err := os.Open(loop); err != nil && !os.IsNotExist(err) {
		ins = append(ins, c18Input{Name: "loop-of-symbolic-links", File: loop, FailAt: -1})
	}
	ins = append(ins, c18Input{Name: "over-long-line-after-a-record", Text: "a:\n  x: 1\nb:\n  " + strings.Repeat("n", 70000) + ": 1\n", FailAt: -1})
	ins = append(ins, c18Input{Name: "over-long-first-line", Text: strings.Repeat("n", 70000) + ":\n  x: 1\n", FailAt: -1})
	full := strings.Join(good, "")
	offs := []int{0, 5, len(full) - 1}
	if tier == "thorough" {
		offs = nil
		for k := 0; k <= len(full); k++ {
			offs = append(offs, k)
		}
	}
	for _, k := range offs {
		ins = append(ins, c18Input{Name: fmt.Sprintf("reader-fails-at-%d", k), Text: full, FailAt: k})
	}
	// kinds of read error: one that calls itself temporary and is gone at the next read - to a scanner every error is final,
	// and so it is to whoever promises the scanner's result
	for _, k := range []int{0, len("a:\n  x: 1\n"), len("a:\n  x: 1\nb:\n") + 2, len(full)} {
		ins = append(ins, c18Input{Name: fmt.Sprintf("temporary-read-error-at-%d", k), Text: full, FailAt: k, Transient: true})
	}
	ins = append(ins, c18Input{Name: "error-then-temporary-read-error", Text: errText, FailAt: len("a:\n  x: 1\n  nosep\n"), Transient: true})
	if tier == "thorough" {
		for k := 0; k <= len(errText); k++ {
			ins = append(ins, c18Input{Name: fmt.Sprintf("input-with-an-error-reader-fails-at-%d", k), Text: errText, FailAt: k})
		}
	}
	return ins
}

func c18Node(n *shared.ParserNode) string {
	s := "node:" + n.Header + fmt.Sprint(n.Elements)
	if n.Metadata != nil {
		s += fmt.Sprint(*n.Metadata)
	}
	return s
}

func (in c18Input) reader() io.Reader {
	if in.FailAt >= 0 {
		return &faultReader{data: []byte(in.Text), FailAt: in.FailAt, Transient: in.Transient}
	}
	return strings.NewReader(in.Text)
}

// reference: the callback parser run sequentially with the policy of ParseStream (stop at the first error).
func c18Reference(in c18Input) (events []string, finalErr string) {
	firstCbErr := ""
	cb := func(n *shared.ParserNode, err error) (bool, error) {
		if err != nil {
			// "its first error" is the first error the callback parser REPORTS (passes to its callback); what the function
			// returns afterwards is checked against it below
			if firstCbErr == "" {
				firstCbErr = err.Error()
			}
			return true, err
		}
		events = append(events, c18Node(n)) // snapshot at callback time
		return false, nil
	}
	var err error
	if in.isFile() {
		err = parser.ParseFileCallback(in.File, in.config(), cb)
	} else {
		err = parser.ParseStreamCallback(in.reader(), in.config(), cb)
	}
	if err != nil {
		finalErr = err.Error()
	}
	if firstCbErr != "" {
		finalErr = firstCbErr
	}
	return
}

type c18Obs struct {
	Events       []string
	ConsumerDone bool
	ProducerDone bool
	Deadlock     bool
	Stalled      bool
	Panics       []string
	Parked       []string
	Trace        []string
}

func c18RunModel(x *Exec, in c18Input, policy int) c18Obs {
	return c18RunModelAfter(x, nil, in, policy)
}

// c18RunTwo: two Parser values at work at the same time (a program that reads its recipe book and its log through the
// channel API concurrently): four threads under the scheduler, every interleaving of the two pipelines' channel
// operations. Each consumer must see what the callback parser reports for its own input.
func c18RunTwo(x *Exec, ins [2]c18Input, policy int) (obs [2]c18Obs, deadlock bool, panics []string, trace []string) {
	s := NewSched(x)
	var kept [2][]*shared.ParserNode
	for i := 0; i < 2; i++ {
		i := i
		p := parser.NewParser(ins[i].config())
		s.NameChan(p.Nodes, fmt.Sprintf("Nodes%d", i))
		s.NameChan(p.Errors, fmt.Sprintf("Errors%d", i))
		s.NameChan(p.Done, fmt.Sprintf("Done%d", i))
		s.Go(fmt.Sprintf("producer%d", i), func() {
			p.ParseStream(ins[i].reader())
			obs[i].ProducerDone = true
		})
		s.Go(fmt.Sprintf("consumer%d", i), func() {
			for {
				c, v, _ := s.Select(selCase{Ch: p.Nodes}, selCase{Ch: p.Errors}, selCase{Ch: p.Done})
				switch c {
				case 0:
					kept[i] = append(kept[i], v.(*shared.ParserNode))
				case 1:
					obs[i].Events = append(obs[i].Events, "error:"+v.(error).Error())
					if policy == 0 {
						obs[i].ConsumerDone = true
						return
					}
				case 2:
					obs[i].Events = append(obs[i].Events, "done")
					obs[i].ConsumerDone = true
					return
				}
			}
		})
	}
	s.Run()
	for i := 0; i < 2; i++ {
		var nodes []string
		for _, n := range kept[i] {
			nodes = append(nodes, c18Node(n))
		}
		// (errors and done come after the records in every legal observation of this consumer)
		obs[i].Events = append(nodes, obs[i].Events...)
	}
	return obs, s.Deadlock, s.Panics, s.Trace
}

// c18RunModelAfter: as c18RunModel, but the same Parser value has parsed *first (an input without errors, drained until
// Done by the same consumer) before; only what the consumer sees of the second parse is recorded.
func c18RunModelAfter(x *Exec, first *c18Input, in c18Input, policy int) c18Obs {
	var o c18Obs
	s := NewSched(x)
	p := parser.NewParser(in.config())
	s.NameChan(p.Nodes, "Nodes")
	s.NameChan(p.Errors, "Errors")
	s.NameChan(p.Done, "Done")
	s.Go("producer", func() {
		if first != nil {
			p.ParseStream(first.reader())
			if c18ThirdUse {
				p.ParseStream(first.reader())
			}
		}
		if in.isFile() {
			p.ParseFile(in.File)
		} else {
			p.ParseStream(in.reader())
		}
		o.ProducerDone = true
	})
	var kept []*shared.ParserNode
	s.Go("consumer", func() {
		if first != nil {
			uses := 1
			if c18ThirdUse {
				uses = 2
			}
			for u := 0; u < uses; u++ {
				for done := false; !done; {
					i, _, _ := s.Select(selCase{Ch: p.Nodes}, selCase{Ch: p.Errors}, selCase{Ch: p.Done})
					done = i == 2
				}
			}
		}
		// the documented receive loop (parser/example_test.go, TestParseWg), with the
		// select expressed through the scheduler
		for {
			i, v, _ := s.Select(selCase{Ch: p.Nodes}, selCase{Ch: p.Errors}, selCase{Ch: p.Done})
			switch i {
			case 0:
				// the consumer keeps the node and looks at it only when the stream is over
				kept = append(kept, v.(*shared.ParserNode))
				o.Events = append(o.Events, fmt.Sprintf("node#%d", len(kept)-1))
				if c18ConsumerParses {
					// a consumer that does something else with the package between two receives: it loads another file
					// with the callback parser while the producer sits in the middle of its input
					parser.ParseStreamCallback(strings.NewReader(c18OtherInput), parser.NewDefaultConfig(), func(*shared.ParserNode, error) (bool, error) { return false, nil })
				}
			case 1:
				o.Events = append(o.Events, "error:"+v.(error).Error())
				if policy == 0 {
					o.ConsumerDone = true
					return
				}
			case 2:
				o.Events = append(o.Events, "done")
				o.ConsumerDone = true
				return
			}
		}
	})
	s.Run()
	for i, e := range o.Events {
		if strings.HasPrefix(e, "node#") {
			var k int
			fmt.Sscanf(e, "node#%d", &k)
			o.Events[i] = c18Node(kept[k])
		}
	}
	o.Deadlock = s.Deadlock
	o.Stalled = s.Stalled
	o.Panics = s.Panics
	o.Parked = s.ParkedAtEnd()
	o.Trace = s.Trace
	if s.Horizon {
		o.Parked = append(o.Parked, "HORIZON: more than 10000 transitions")
	}
	return o
}

// c18RunReal: the same consumer on real channels, free-running (model validation).
func c18RunReal(in c18Input, policy int, limit time.Duration) (events []string, finished bool) {
	verifshim.SendHook = nil
	p := parser.NewParser(in.config())
	go func() {
		if in.isFile() {
			p.ParseFile(in.File)
		} else {
			p.ParseStream(in.reader())
		}
	}()
	done := make(chan []string, 1)
	var keptReal []*shared.ParserNode
	fix := func(ev []string) []string {
		for i, e := range ev {
			if strings.HasPrefix(e, "node#") {
				var k int
				fmt.Sscanf(e, "node#%d", &k)
				ev[i] = c18Node(keptReal[k])
			}
		}
		return ev
	}
	go func() {
		var ev []string
		for {
			select {
			case n := <-p.Nodes:
				keptReal = append(keptReal, n)
				ev = append(ev, fmt.Sprintf("node#%d", len(keptReal)-1))
			case err := <-p.Errors:
				ev = append(ev, "error:"+err.Error())
				if policy == 0 {
					done <- ev
					return
				}
			case <-p.Done:
				ev = append(ev, "done")
				done <- ev
				return
			}
		}
	}()
	select {
	case ev := <-done:
		return fix(ev), true
	case <-time.After(limit):
		return nil, false
	}
}

func checkC18(w *Worker) {
	inputs := c18Inputs(w.Tier)
	type key struct{ in, pol int }
	modelOutcomes := map[key]map[uint64]bool{} // (hashes of the observations: a seeded tree may produce 100 000 long ones)
	modelDeadlock := map[key]bool{}
	var firsts []c18Input
	for _, in := range inputs {
		if in.Name == "empty" || in.Name == "1-records" || in.Name == "3-records" || in.Name == "three-records-with-notes" {
			firsts = append(firsts, in)
		}
	}
	var first *c18Input
	longInputs := false
	one := func(x *Exec) {
		ii := x.Choose(len(inputs), "input:input")
		policy := x.Choose(2, "input:consumer") // 0: documented loop (stop at first error); 1: drain until Done
		in := inputs[ii]
		refEvents, refErr := c18Reference(in)
		o := c18RunModelAfter(x, first, in, policy)
		if o.Stalled {
			x.Case("skip: not schedulable", false)
			x.Note("schedule_exploration_abandoned", 1)
			return
		}
		obs := strings.Join(o.Events, " | ")
		x.Obs(obs, fmt.Sprint(o.ConsumerDone, o.ProducerDone, o.Deadlock))
		x.Case(fmt.Sprint(ii, policy, o.Trace), refErr != "" || len(refEvents) > 1)
		x.Sample(map[string]interface{}{"input": in.Name, "consumer": []string{"stop at first error", "drain until Done"}[policy], "schedule": o.Trace, "consumer_saw": o.Events, "deadlock": o.Deadlock})
		k := key{ii, policy}
		if first != nil || c18ConsumerParses || longInputs {
			k = key{-1 - ii, policy} // (not part of the validation against real channels below)
		}
		if modelOutcomes[k] == nil {
			modelOutcomes[k] = map[uint64]bool{}
		}
		if k.in >= 0 { // (only these are validated against real channels)
			modelOutcomes[k][hash64([]byte(obs))] = true
		}
		if o.Deadlock || !o.ConsumerDone {
			modelDeadlock[k] = true
		}
		polName := []string{"stop-at-first-error", "drain-until-done"}[policy]
		if first != nil {
			polName = "second-use-of-a-parser|" + polName
		}
		if c18ConsumerParses {
			polName = "consumer-parses-between-receives|" + polName
		}
		rep := map[string]interface{}{"input": in.Name, "text": in.Text, "file": in.File, "fail_at": in.FailAt, "consumer": polName, "schedule": o.Trace, "consumer_saw": o.Events, "parked_at_end": o.Parked, "callback_parser_records": refEvents, "callback_parser_error": refErr}
		ctx := fmt.Sprintf("input %s (%q%s), consumer %s, schedule %v\nconsumer saw: %v\ncallback parser: records %v, error %q", in.Name, in.Text, in.File, polName, o.Trace, o.Events, refEvents, refErr)
		if len(o.Panics) > 0 {
			x.Violate("C18|"+polName+"|panic-in-producer-or-consumer", ctx+"\npanic: "+strings.Join(o.Panics, "; "), rep)
			return
		}
		if !o.ConsumerDone {
			kind := "consumer-never-terminates"
			if in.isFile() {
				kind = "consumer-never-terminates|unreadable-file"
			}
			x.Violate("C18|"+polName+"|"+kind, ctx+"\nthe consumer does not terminate: "+strings.Join(o.Parked, "; "), rep)
			return
		}
		// expected observation
		want := append([]string{}, refEvents...)
		if refErr != "" {
			want = append(want, "error:"+refErr)
			if policy == 1 {
				want = append(want, "done")
			}
		} else {
			want = append(want, "done")
		}
		if strings.Join(want, " | ") != obs {
			kind := "wrong-observation"
			nerr := 0
			for _, e := range o.Events {
				if strings.HasPrefix(e, "error:") {
					nerr++
				}
			}
			if policy == 1 && nerr > 1 {
				kind = "error-delivered-more-than-once"
			}
			x.Violate("C18|"+polName+"|"+kind, ctx+"\nexpected:     "+fmt.Sprint(want), rep)
			return
		}
		if policy == 1 && !o.ProducerDone {
			x.Violate("C18|"+polName+"|producer-goroutine-left-blocked", ctx+"\nafter the consumer finished: "+strings.Join(o.Parked, "; "), rep)
		}
	}
	w.Explore("schedules", ExploreOpts{ShardDepth: 2}, one)
	// inputs beyond any batch a producer might collect before handing over (257, 300, 513, 1025 records; an error after the
	// 300th): up to two departures from the default schedule
	all := inputs
	inputs = nil
	for _, n := range []int{257, 300, 513, 1025} {
		var sb strings.Builder
		for r := 1; r <= n; r++ {
			sb.WriteString(fmt.Sprintf("day%04d:\n  food%d: %d\n", r, r, r))
		}
		inputs = append(inputs, c18Input{Name: fmt.Sprintf("%d-records", n), Text: sb.String(), FailAt: -1})
		if n == 300 {
			inputs = append(inputs, c18Input{Name: "300-records-then-error", Text: sb.String() + "last:\n  nosep\nafter:\n  x: 1\n", FailAt: -1})
			inputs = append(inputs, c18Input{Name: "300-records-reader-fails", Text: sb.String(), FailAt: len(sb.String()) - 7})
		}
	}
	longInputs = true
	w.Explore("long-inputs", ExploreOpts{ShardDepth: 2, Budgets: map[string]int{"sched": 2}}, one)
	inputs, longInputs = all, false
	// two parsers at once: every pair of five small inputs, every interleaving of the two pipelines
	var smalls []c18Input
	for _, in := range inputs {
		switch in.Name {
		case "empty", "1-records", "2-records", "error-first-entry", "three-records-with-notes":
			smalls = append(smalls, in)
		}
	}
	w.Explore("two-parsers-at-once", ExploreOpts{ShardDepth: 3}, func(x *Exec) {
		a := smalls[x.Choose(len(smalls), "input:first-input")]
		b := smalls[x.Choose(len(smalls), "input:second-input")]
		policy := x.Choose(2, "input:consumer")
		obs, deadlock, panics, trace := c18RunTwo(x, [2]c18Input{a, b}, policy)
		x.Obs(strings.Join(obs[0].Events, " | "), strings.Join(obs[1].Events, " | "), fmt.Sprint(deadlock))
		x.Case(fmt.Sprint(a.Name, b.Name, policy, trace), true)
		polName := "two-parsers-at-once|" + []string{"stop-at-first-error", "drain-until-done"}[policy]
		rep := map[string]interface{}{"inputs": []string{a.Name, b.Name}, "schedule": trace}
		if len(panics) > 0 {
			x.Violate("C18|"+polName+"|panic-in-producer-or-consumer", fmt.Sprintf("inputs %s and %s, schedule %v: %v", a.Name, b.Name, trace, panics), rep)
			return
		}
		for i, in := range []c18Input{a, b} {
			refEvents, refErr := c18Reference(in)
			want := append([]string{}, refEvents...)
			if refErr != "" {
				want = append(want, "error:"+refErr)
				if policy == 1 {
					want = append(want, "done")
				}
			} else {
				want = append(want, "done")
			}
			if !obs[i].ConsumerDone {
				x.Violate("C18|"+polName+"|consumer-never-terminates", fmt.Sprintf("inputs %s and %s parsed at the same time, schedule %v: consumer %d does not terminate (saw %v)", a.Name, b.Name, trace, i, obs[i].Events), rep)
				return
			}
			if strings.Join(want, " | ") != strings.Join(obs[i].Events, " | ") {
				x.Violate("C18|"+polName+"|wrong-observation", fmt.Sprintf("inputs %s and %s parsed at the same time, schedule %v\nconsumer %d saw:  %v\ncallback parser: %v", a.Name, b.Name, trace, i, obs[i].Events, want), rep)
				return
			}
			if policy == 1 && !obs[i].ProducerDone {
				x.Violate("C18|"+polName+"|producer-goroutine-left-blocked", fmt.Sprintf("inputs %s and %s, schedule %v: producer %d did not exit", a.Name, b.Name, trace, i), rep)
				return
			}
		}
	})
	// a consumer that uses the callback parser on another (6 KB, partly malformed) input between two receives
	w.Explore("consumer-parses-between-receives", ExploreOpts{ShardDepth: 2}, func(x *Exec) {
		c18ConsumerParses = true
		defer func() { c18ConsumerParses = false }()
		one(x)
	})
	// a Parser value used for a second input (the package's own benchmark does): every input again, after one of four
	// error-free first inputs that the same consumer drained until Done
	w.Explore("second-use-of-a-parser", ExploreOpts{ShardDepth: 3}, func(x *Exec) {
		f := firsts[x.Choose(len(firsts), "event:first-input")]
		first = &f
		c18ThirdUse = x.Choose(2, "event:used-twice-before") == 1
		defer func() { first, c18ThirdUse = nil, false }()
		one(x)
	})
	// model validation: every (input, consumer) whose schedules all terminate is run free on real channels;
	// the observation must be one the model produced
	if w.Replay == nil {
		validated := int64(0)
		for k, outs := range modelOutcomes {
			if modelDeadlock[k] || k.in < 0 {
				continue
			}
			ev, fin := c18RunReal(inputs[k.in], k.pol, 20*time.Second)
			if !fin {
				fatalHarness("channel model validation: input %s consumer %d terminates in every modelled schedule but the free run on real channels did not finish in 20s", inputs[k.in].Name, k.pol)
			}
			if !outs[hash64([]byte(strings.Join(ev, " | ")))] {
				// the free run disagrees with every modelled schedule. If what the real channels delivered
				// is not the callback parser's result, the property is broken on the real program (e.g. a
				// node mutated after it was sent); otherwise the model is wrong.
				refEvents, refErr := c18Reference(inputs[k.in])
				want := append([]string{}, refEvents...)
				if refErr != "" {
					want = append(want, "error:"+refErr)
					if k.pol == 1 {
						want = append(want, "done")
					}
				} else {
					want = append(want, "done")
				}
				if strings.Join(want, " | ") == strings.Join(ev, " | ") {
					fatalHarness("channel model validation: input %s consumer %d: real channels produced %v, which no modelled schedule produced (%d distinct modelled observations)", inputs[k.in].Name, k.pol, ev, len(outs))
				}
				sig := "C18|free-run-on-real-channels|wrong-observation"
				w.ViolCount[sig]++
				w.Violations = append(w.Violations, Violation{Sig: sig, Explore: "free-run", Detail: fmt.Sprintf("input %s (%q), consumer policy %d, free-running on real channels: consumer saw %v, the callback parser gives %v (none of the %d observations of the cooperative schedules)", inputs[k.in].Name, inputs[k.in].Text, k.pol, ev, want, len(outs))})
			}
			validated++
		}
		w.Notes["model_validation_free_runs_on_real_channels"] += validated
	}
}

// loopDirFor: the worker's own directory (removed with the run), or the system one.
func loopDirFor() string {
	d := os.Getenv("VERIF_TMP")
	if d == "" {
		d = os.TempDir()
	}
	return d + fmt.Sprintf("/c18-%d", os.Getpid())
}
