package main

// Fault-injecting reader and writer, and the D-cu driver: the real root flags and the
// real command constructors, wired to the repository's own CmdUtils seam so that the
// input readers and the output sink are owned by the explorer.

import (
	"bytes"
	"errors"
	"fmt"
	"io"
	"runtime/debug"
	"strings"

	"github.com/aquilax/hranoprovod-cli/cmd/hranoprovod-cli/v3/internal/balance"
	"github.com/aquilax/hranoprovod-cli/cmd/hranoprovod-cli/v3/internal/csv"
	"github.com/aquilax/hranoprovod-cli/cmd/hranoprovod-cli/v3/internal/lint"
	"github.com/aquilax/hranoprovod-cli/cmd/hranoprovod-cli/v3/internal/options"
	"github.com/aquilax/hranoprovod-cli/cmd/hranoprovod-cli/v3/internal/print"
	"github.com/aquilax/hranoprovod-cli/cmd/hranoprovod-cli/v3/internal/register"
	"github.com/aquilax/hranoprovod-cli/cmd/hranoprovod-cli/v3/internal/report"
	"github.com/aquilax/hranoprovod-cli/cmd/hranoprovod-cli/v3/internal/stats"
	"github.com/aquilax/hranoprovod-cli/cmd/hranoprovod-cli/v3/internal/summary"
	"github.com/aquilax/hranoprovod-cli/cmd/hranoprovod-cli/v3/internal/utils"
	"github.com/urfave/cli/v2"
)

var errInjectedRead = errors.New("injected read failure")
var errInjectedWrite = errors.New("injected write failure: no space left on device")

// faultReader delivers data in chunks of at most Chunk bytes and starts failing at
// byte offset FailAt (FailAt > len(data): never). Together: the error is returned
// together with the last bytes before the offset (legal io.Reader behaviour).
// temporaryError: a read error of the kind a retrying wrapper would retry (net.Error-like: Temporary() and Timeout())
type temporaryError struct{}

func (temporaryError) Error() string   { return "verif: temporarily unavailable" }
func (temporaryError) Temporary() bool { return true }
func (temporaryError) Timeout() bool   { return true }

var errTemporaryRead error = temporaryError{}

type faultReader struct {
	// Transient: the read at FailAt fails once, with an error that calls itself temporary; later reads succeed
	Transient bool
	data      []byte
	pos       int
	FailAt    int
	Chunk     int
	Together  bool
	Failed    bool
}

func (r *faultReader) Read(p []byte) (int, error) {
	if len(p) == 0 {
		return 0, nil
	}
	if r.pos >= r.FailAt && r.FailAt <= len(r.data) && !(r.Transient && r.Failed) {
		r.Failed = true
		if r.Transient {
			return 0, errTemporaryRead // (the next read goes on: EINTR, EAGAIN, an expired deadline that was extended)
		}
		return 0, errInjectedRead
	}
	if r.pos >= len(r.data) {
		return 0, io.EOF
	}
	n := len(p)
	if r.Chunk > 0 && n > r.Chunk {
		n = r.Chunk
	}
	if n > len(r.data)-r.pos {
		n = len(r.data) - r.pos
	}
	if r.FailAt <= len(r.data) && r.pos+n > r.FailAt {
		n = r.FailAt - r.pos
	}
	copy(p, r.data[r.pos:r.pos+n])
	r.pos += n
	if r.Together && r.FailAt <= len(r.data) && r.pos == r.FailAt {
		r.Failed = true
		return n, errInjectedRead
	}
	return n, nil
}

// faultWriter accepts Accept bytes, then fails (short write + error) forever.
type faultWriter struct {
	buf    bytes.Buffer
	Accept int // < 0: never fails
	Failed bool
}

func (w *faultWriter) Write(p []byte) (int, error) {
	slowSinkPoint()
	if w.Accept < 0 {
		return w.buf.Write(p)
	}
	room := w.Accept - w.buf.Len()
	if room >= len(p) && !w.Failed {
		return w.buf.Write(p)
	}
	w.Failed = true
	if room < 0 {
		room = 0
	}
	if room > len(p) {
		room = len(p)
	}
	w.buf.Write(p[:room])
	return room, errInjectedWrite
}

type cuCase struct {
	Args    []string
	Files   map[string]string       // contents by file name, served through WithFileReaders
	Readers map[string]*faultReader // optional fault plan per file name
	Out     *faultWriter
}

// runCU runs one command of the real application through the CmdUtils seam.
func runCU(c cuCase) (res AppRun) {
	if c.Out == nil {
		c.Out = &faultWriter{Accept: -1}
	}
	// (stats and lint open their files by name: the same contents are on disk)
	if theApp.inited {
		defer writeFiles(c.Files)()
	}
	cu := utils.CmdUtils{
		WithFileReaders: func(fileNames []string, cb func([]io.Reader) error) error {
			streams := make([]io.Reader, len(fileNames))
			for i, fn := range fileNames {
				if fr, ok := c.Readers[fn]; ok {
					streams[i] = fr
					continue
				}
				content, ok := c.Files[fn]
				if !ok {
					return fmt.Errorf("open %s: no such file or directory", fn)
				}
				streams[i] = strings.NewReader(content)
			}
			return cb(streams)
		},
		WithOptions: func(ctx *cli.Context, cb func(*options.Options) error) error {
			o := options.New()
			if err := o.Load(ctx, false); err != nil {
				return err
			}
			o.ReporterConfig.Output = c.Out
			return cb(o)
		},
	}
	var appOut bytes.Buffer
	defer func() {
		if r := recover(); r != nil {
			switch r.(type) {
			case abortNotMine, harnessError, oracleFailure:
				panic(r)
			case appPanic:
				res.Panic, res.Failed = r.(appPanic).text, true
				res.Stdout = c.Out.buf.String()
				res.AppOut = appOut.String()
				return
			}
			res.Panic = fmt.Sprintf("%v\n%s", r, trimStack(string(debug.Stack())))
			res.Failed = true
		}
		res.Stdout = c.Out.buf.String()
		res.AppOut = appOut.String()
	}()
	a := GetApp()
	a.Writer = &appOut
	a.ErrWriter = &appOut
	a.ExitErrHandler = func(*cli.Context, error) {}
	a.Commands = []*cli.Command{
		register.NewRegisterCommand(cu, register.Register),
		balance.NewBalanceCommand(cu, balance.Balance),
		lint.VerifNewLintCommand(cu, lint.Lint),
		report.NewReportCommand(cu),
		csv.NewCSVCommand(cu),
		stats.NewStatsCommand(cu, stats.Stats),
		summary.NewSummaryCommand(cu, summary.Summary),
		print.NewPrintCommand(cu, print.Print),
	}
	// (thread "main" of a scheduler, like every application run: goroutines the command starts are scheduled)
	err := runScheduled(func() error { return a.Run(append([]string{"hranoprovod-cli"}, c.Args...)) })
	if err != nil {
		res.Failed = true
		res.Err = err.Error()
	}
	return res
}
