package main

import (
	"fmt"
	"regexp"
	"sort"
	"strconv"
	"strings"
	"unicode/utf8"
)

func init() { propChecks["C15"] = checkC15 }

const c15Long = "very/long/category/path/of/a/food/x" // 35 runes: wider than the 27 column
const c15LongEl = "элемент с длинным именем 25"       // > 20 runes, multi-byte

var c15Book = absBook{
	{"w/empty", nil},
	{"w/tea", []absIng{{"w/empty", 1}}},
	{"r1", []absIng{{"cal", 2}, {"fat", -0.5}}},
	{c15Long, []absIng{{c15LongEl, 1.5}, {"cal", -1}}},
}
var c15Foods = []string{"r1", c15Long, "ел 2", "m&m's <x>+y \"z\" long enough to be shortened", "w/tea"}
var c15Qty = []float64{1, -2, 0}

var colTokRe = regexp.MustCompile("(\x1b\\[3[12]m)?( *-?[0-9]+\\.[0-9]{2})(\x1b\\[0m)?")

// c15ExactAmounts: every amount of the current scenario is a multiple of 1/100, so what prints as zero is zero.
var c15ExactAmounts = true

// checkColours: every amount is red when positive, green when negative, uncoloured when zero.
func checkColours(out string) string {
	for _, line := range splitLines(out) {
		if line == "" || (line[0] >= '0' && line[0] <= '9') {
			continue // date line
		}
		for _, g := range colTokRe.FindAllStringSubmatch(line, -1) {
			v, err := strconv.ParseFloat(strings.TrimSpace(g[2]), 64)
			if err != nil {
				continue
			}
			want := ""
			if v > 0 {
				want = "\x1b[31m"
			} else if v < 0 {
				want = "\x1b[32m"
			}
			if v == 0 && !c15ExactAmounts && (g[1] != "") == (g[3] != "") {
				// printed as zero: the amount itself may be a small positive (red), a small negative (green, printed
				// with a minus sign) or zero (uncoloured) - the printed text only excludes the opposite colour
				neg := strings.Contains(g[2], "-")
				if g[1] == "" || (neg && g[1] == "\x1b[32m") || (!neg && g[1] == "\x1b[31m") {
					continue
				}
			}
			if g[1] != want || (want != "") != (g[3] != "") {
				return fmt.Sprintf("amount %q in line %q has colour code %q, expected %q", g[2], line, g[1], want)
			}
		}
	}
	return ""
}

// shortenedOK: printed is orig, or (orig longer than width) a non-empty prefix of orig, some
// omission mark, and a non-empty suffix of orig, within width runes. The mark itself is not prescribed.
func shortenedOK(printed, orig string, width int) bool {
	if printed == orig {
		return utf8.RuneCountInString(orig) <= width
	}
	if utf8.RuneCountInString(printed) > width {
		return false
	}
	pr, or := []rune(printed), []rune(orig)
	i := 0
	for i < len(pr) && i < len(or) && pr[i] == or[i] {
		i++
	}
	j := 0
	for j < len(pr)-i && j < len(or) && pr[len(pr)-1-j] == or[len(or)-1-j] {
		j++
	}
	return i >= 1 && j >= 1 && i+j < len(pr)+1 && i+j < len(or)
}

func splitDays(out string) [][]string {
	var days [][]string
	for _, line := range splitLines(out) {
		if line != "" && line[0] >= '0' && line[0] <= '9' {
			days = append(days, []string{line})
			continue
		}
		if len(days) == 0 {
			days = append(days, []string{})
		}
		days[len(days)-1] = append(days[len(days)-1], line)
	}
	return days
}

// c15BeforeVariants: set by an exploration that wants something to happen in the process before the presentations run
var c15BeforeVariants func()

func checkC15(w *Worker) {
	w.appInit()
	bookText := renderBook(c15Book)
	refRunCache := map[string]AppRun{}
	colours := [][2][]string{{nil, nil}, {{"--no-color"}, nil}, {nil, {"--no-color"}}} // [global flags, sub-command flags]
	templates := []struct {
		Name   string
		Args   []string
		Layout string
	}{{"default", nil, "default"}, {"left-aligned", []string{"--internal-template-name", "left-aligned"}, "left-aligned"}, {"old", []string{"--use-old-reg-reporter"}, "default"}}
	max1 := 2
	if w.Tier == "thorough" {
		max1 = 3
	}
	present := func(x *Exec, mkLog func(x *Exec) (absLog, string)) {
		c15ExactAmounts = true
		c15BeforeVariants = nil
		ci := x.Choose(len(colours), "config:colour")
		ti := x.Choose(len(templates), "config:template")
		sh := x.Choose(2, "config:shorten")
		lg, bookText := mkLog(x)
		logText := renderLog(lg)
		files := map[string]string{"food.yaml": bookText, "log.yaml": logText}
		refCase := appCase{Args: []string{"--no-color", "reg"}, Files: files}
		refRun := cachedRun(refRunCache, 1<<30, logText+"\x00"+bookText, refCase)
		ref, err := parseRegister(refRun.Stdout, "default")
		if err != nil || refRun.Failed {
			x.Violate("C15|plain-register-failed", fmt.Sprintf("`%s`: %v %s", refCase.shell(), err, refRun.String()), nil)
			return
		}
		tpl := templates[ti]
		cfgName := fmt.Sprintf("colour=%d,template=%s,shorten=%d", ci, tpl.Name, sh)
		mk := func(totals []string) appCase {
			args := append([]string{}, colours[ci][0]...)
			args = append(args, "reg")
			args = append(args, colours[ci][1]...)
			args = append(args, tpl.Args...)
			if sh == 1 {
				args = append(args, "--shorten")
			}
			args = append(args, totals...)
			return appCase{Args: args, Files: files}
		}
		cDef, cNo, cOnly := mk(nil), mk([]string{"--no-totals"}), mk([]string{"--totals-only"})
		if c15BeforeVariants != nil {
			// (an earlier run in the same process: the presentations below start from what it left in memory)
			c15BeforeVariants()
			c15BeforeVariants = nil
			appKeepState = true
			x.NoConfirm = true // (a single run of the binary cannot reproduce a sequence of runs)
			defer func() { appKeepState = false }()
		}
		rDef, rNo, rOnly := runApp(cDef), runApp(cNo), runApp(cOnly)
		x.Obs(rDef.Key(), rNo.Key(), rOnly.Key())
		x.Case(cfgName+"|"+lg.String()+"|"+fmt.Sprint(hash64([]byte(bookText))), len(lg) > 0 && len(lg[0].Entries) > 0)
		x.Sample(map[string]interface{}{"cmd": cDef.shell(), "stdout": rDef.Stdout})
		viol := func(kind, msg string, c appCase) {
			x.Violate("C15|"+tpl.Name+"|"+kind, fmt.Sprintf("configuration %s\n`%s`\n%s", cfgName, c.shell(), msg), map[string]interface{}{"cmd": c.shell(), "config": cfgName})
		}
		for _, rc := range []struct {
			r AppRun
			c appCase
		}{{rDef, cDef}, {rNo, cNo}, {rOnly, cOnly}} {
			if rc.r.Failed || rc.r.Panic != "" {
				viol("failed", rc.r.String(), rc.c)
				return
			}
		}
		coloured := ci == 0
		plain := func(r AppRun) string {
			if coloured {
				return stripANSI(r.Stdout)
			}
			return r.Stdout
		}
		if !coloured && strings.Contains(rDef.Stdout+rNo.Stdout+rOnly.Stdout, "\x1b") {
			viol("escape-codes-with-no-color", rDef.Stdout, cDef)
			return
		}
		if coloured {
			for _, r := range []AppRun{rDef, rNo, rOnly} {
				if msg := checkColours(r.Stdout); msg != "" {
					viol("wrong-colour", msg+"\n"+fmt.Sprintf("%q", r.Stdout), cDef)
					return
				}
			}
		}
		// same records with the same numbers as the plain default-template register
		got, err := parseRegister(plain(rDef), tpl.Layout)
		if err != nil {
			viol("unparseable", err.Error()+"\n"+rDef.Stdout, cDef)
			return
		}
		if len(got) != len(ref) {
			viol("different-days", fmt.Sprintf("%d days, reference %d\n%s", len(got), len(ref), rDef.Stdout), cDef)
			return
		}
		shortening := sh == 1 && tpl.Name == "default"
		nameOK := func(printed, orig string, width int) bool {
			if sh == 1 {
				// the option may shorten (where the layout has columns) but never change a name otherwise
				return printed == orig || shortenedOK(printed, orig, width)
			}
			return printed == orig
		}
		for di := range ref {
			g, r := got[di], ref[di]
			if g.Date != r.Date || len(g.Foods) != len(r.Foods) || len(g.Totals) != len(r.Totals) {
				viol("different-records", fmt.Sprintf("day %s: %s\nreference: %s\n%s", r.Date, g, r, rDef.Stdout), cDef)
				return
			}
			for fi := range r.Foods {
				gf, rf := g.Foods[fi], r.Foods[fi]
				if gf.Qty != rf.Qty || !nameOK(gf.Name, rf.Name, 27) || len(gf.Ings) != len(rf.Ings) {
					viol("different-records", fmt.Sprintf("food row %v, reference %v\n%s", gf, rf, rDef.Stdout), cDef)
					return
				}
				if shortening && utf8.RuneCountInString(gf.Name) > 27 {
					viol("shortened-name-too-wide", fmt.Sprintf("%q has %d runes", gf.Name, utf8.RuneCountInString(gf.Name)), cDef)
					return
				}
				for ii := range rf.Ings {
					if gf.Ings[ii].Val != rf.Ings[ii].Val || !nameOK(gf.Ings[ii].Name, rf.Ings[ii].Name, 20) {
						viol("different-records", fmt.Sprintf("ingredient row %v, reference %v\n%s", gf.Ings[ii], rf.Ings[ii], rDef.Stdout), cDef)
						return
					}
					if shortening && utf8.RuneCountInString(gf.Ings[ii].Name) > 20 {
						viol("shortened-name-too-wide", fmt.Sprintf("%q has %d runes", gf.Ings[ii].Name, utf8.RuneCountInString(gf.Ings[ii].Name)), cDef)
						return
					}
				}
			}
			for ti2 := range r.Totals {
				gt, rt := g.Totals[ti2], r.Totals[ti2]
				if gt.Pos != rt.Pos || gt.Neg != rt.Neg || gt.Sum != rt.Sum || !nameOK(gt.Name, rt.Name, 20) {
					viol("different-records", fmt.Sprintf("total row %v, reference %v\n%s", gt, rt, rDef.Stdout), cDef)
					return
				}
				if shortening && utf8.RuneCountInString(gt.Name) > 20 {
					viol("shortened-name-too-wide", fmt.Sprintf("total row: %q has %d runes", gt.Name, utf8.RuneCountInString(gt.Name)), cDef)
					return
				}
			}
		}
		// default = no-totals and totals-only interleaved per day, byte-wise
		dDef, dNo, dOnly := splitDays(rDef.Stdout), splitDays(rNo.Stdout), splitDays(rOnly.Stdout)
		if len(dDef) != len(dNo) || len(dDef) != len(dOnly) {
			viol("interleaving", fmt.Sprintf("day counts %d/%d/%d\n--- default\n%s--- no-totals\n%s--- totals-only\n%s", len(dDef), len(dNo), len(dOnly), rDef.Stdout, rNo.Stdout, rOnly.Stdout), cDef)
			return
		}
		for i := range dDef {
			if len(dNo[i]) == 0 || len(dOnly[i]) == 0 || len(dDef[i]) == 0 {
				continue
			}
			want := append(append([]string{}, dNo[i]...), dOnly[i][1:]...)
			if strings.Join(dDef[i], "\n") != strings.Join(want, "\n") || dNo[i][0] != dOnly[i][0] {
				viol("interleaving", fmt.Sprintf("day %d: default output is not the no-totals block followed by the totals-only block\n--- default\n%s--- no-totals\n%s--- totals-only\n%s", i, rDef.Stdout, rNo.Stdout, rOnly.Stdout), cDef)
				return
			}
		}
	}
	w.Explore("register-presentation", ExploreOpts{ShardDepth: 6}, func(x *Exec) {
		present(x, func(x *Exec) (absLog, string) {
			genDay := func(date string, max int) absDay {
				d := absDay{Date: date}
				n := x.Choose(max+1, "input:entries")
				for i := 0; i < n; i++ {
					d.Entries = append(d.Entries, absIng{c15Foods[x.Choose(len(c15Foods), "input:food")], c15Qty[x.Choose(len(c15Qty), "input:qty")]})
				}
				return d
			}
			lg := absLog{genDay("2021/01/24", max1)}
			if x.Choose(2, "input:secondday") == 1 {
				lg = append(lg, genDay("2021/01/25", 1))
			}
			return lg, bookText
		})
	})
	// amounts on and next to the rounding ties of the printed precision (0.125, 0.625, 1.115, 2.675, 0.005 ...): every
	// presentation must print the digits the plain register prints
	w.Explore("amounts-on-rounding-ties", ExploreOpts{ShardDepth: 5}, func(x *Exec) {
		present(x, func(x *Exec) (absLog, string) {
			q := []float64{0.5, 1, -0.5, 3, 2.5}[x.Choose(5, "input:qty")]
			q2 := []float64{1, 0.5, -1.5}[x.Choose(3, "input:qty-of-second-food")]
			book := "ties:\n  a: 0.25\n  b: -0.25\n  c: 1.115\n  d: 2.675\n  e: 1.25\n  f: 0.01\n  g: 1.005\n  h: -1.345\nr1:\n  a: 0.125\n  cal: 2\n"
			d := absDay{Date: "2021/01/24", Entries: []absIng{{"ties", q}, {"r1", q2}, {"direct", 0.125}, {"direct2", 2.675}}}
			return absLog{d, {Date: "2021/01/25", Entries: []absIng{{"ties", q2}, {"direct", 1.115}}}}, book
		})
	})
	// every special scenario (harness/specials.go) through every presentation
	specials := specialsFor(w.Tier)
	w.Explore("special-scenarios", ExploreOpts{ShardDepth: 4}, func(x *Exec) {
		present(x, func(x *Exec) (absLog, string) {
			sc := specials[x.Choose(len(specials), "input:scenario")]
			c15ExactAmounts = sc.Exact
			return sc.Log, renderBook(sc.Book)
		})
	})
	// names of every length around the two column widths of the default register (27 for the logged food, 20 for
	// ingredients and totals): a food the book does not define is shown in both columns and in the totals
	w.Explore("name-lengths-around-the-column-widths", ExploreOpts{ShardDepth: 5}, func(x *Exec) {
		present(x, func(x *Exec) (absLog, string) {
			L := 17 + x.Choose(15, "input:name-length") // 17..31
			kind := x.Choose(3, "input:kind-of-name")   // unknown food (ASCII), unknown food (two-byte letters), food of the book with an element of that length
			two := x.Choose(2, "input:second-entry")
			unit := "cheese/gouda/aged/slice/of/the/day/and/more"
			if kind == 1 {
				unit = "сирене/гауда/отлежало/парче/на/деня/и/още"
			}
			name := string([]rune(unit)[:L])
			book := "r1:\n  cal: 2\n  fat: -0.5\n"
			if kind == 2 {
				book += name + ":\n  " + string([]rune("element/" + unit)[:L]) + ": 1.5\n  cal: -1\n"
			}
			d := absDay{Date: "2021/01/24", Entries: []absIng{{name, 2}}}
			if two == 1 {
				d.Entries = []absIng{{"r1", 1}, {name, -1}, {name + "x", 0.5}}
			}
			return absLog{d, {Date: "2021/01/25", Entries: []absIng{{name, 1}}}}, book
		})
	})
	// sequences of runs in one process (a program that uses the commands as a library, the e2e tests): whatever an earlier
	// run was configured with - colour, shortening, template, date format - the next presentation is the one that was asked for
	w.Explore("after-an-earlier-run-in-the-same-process", ExploreOpts{ShardDepth: 5}, func(x *Exec) {
		present(x, func(x *Exec) (absLog, string) {
			kind := x.Choose(2, "input:kind-of-name") * 2
			unit := "cheese/gouda/aged/slice/of/the/day/and/more"
			name := unit[:30]
			book := "r1:\n  cal: 2\n  fat: -0.5\n"
			if kind == 2 {
				book += name + ":\n  " + ("element/" + unit)[:30] + ": 1.5\n  cal: -1\n"
			}
			lg := absLog{{Date: "2021/01/24", Entries: []absIng{{"r1", 1}, {name, -1}, {name + "x", 0.5}}}, {Date: "2021/01/25", Entries: []absIng{{name, 1}}}}
			earlier := [][]string{
				{"reg"}, {"--no-color", "reg"}, {"reg", "--shorten"}, {"--no-color", "reg", "--shorten"},
				{"--no-color", "reg", "--internal-template-name", "left-aligned"}, {"reg", "--internal-template-name", "left-aligned", "--shorten"},
				{"--no-color", "reg", "--use-old-reg-reporter", "--shorten"}, {"reg", "--use-old-reg-reporter"},
				{"--date-format", "02.01.2006", "reg"}, {"--no-color", "--date-format", "02.01.2006", "reg", "--shorten", "--totals-only"},
				{"bal"}, {"--no-color", "bal", "-c"}, {"--no-color", "summary", "today"}, {"reg", "-s", "cal"},
			}
			e := earlier[x.Choose(len(earlier), "event:earlier-run")]
			logText := renderLog(lg)
			if len(e) > 1 && (e[0] == "--date-format" || e[1] == "--date-format") {
				logText = "24.01.2021:\n  r1: 1\n  " + name + ": -1\n"
			}
			c15BeforeVariants = func() {
				er := runApp(appCase{Args: e, Files: map[string]string{"food.yaml": book, "log.yaml": logText}})
				if er.Failed || er.Panic != "" {
					x.Violate("C15|earlier-run-failed", er.String(), nil)
				}
			}
			return lg, book
		})
	})
	// collapse modes of the balance change only the layout: same leaf paths, same amounts (prefix-free food sets)
	uni := pathUniverse([]string{"a", "b"}, 3)
	w.Explore("balance-collapse-modes", ExploreOpts{ShardDepth: 4}, func(x *Exec) {
		single := x.Choose(2, "config:single-element")
		var names []string
		day := absDay{Date: "2021/01/24"}
		book := absBook{}
		for i, p := range uni {
			if x.Choose(2, "input:member") == 1 {
				names = append(names, p)
				day.Entries = append(day.Entries, absIng{p, float64(int(1) << uint(i))})
			}
			book = append(book, absRecipe{p, []absIng{{"X", c03Coef[i%len(c03Coef)]}}})
		}
		if len(names) == 0 {
			x.Case("skip-no-food", false)
			return
		}
		// a food may be a category of another one (a and a/b): then a row of a collapsed tree stands for more than a leaf, and
		// what the modes must agree on is the top level - one row per first segment, with everything below it (and the grand total)
		pf := prefixFree(names)
		files := map[string]string{"food.yaml": renderBook(book), "log.yaml": renderLog(absLog{day})}
		leavesOf := func(mode []string) (map[string]string, AppRun, appCase) {
			args := append([]string{"--no-color", "bal"}, mode...)
			if single == 1 {
				args = append(args, "-s", "X")
			}
			c := appCase{Args: args, Files: files}
			r := runApp(c)
			b, err := parseBalance(r.Stdout)
			if err != nil || r.Failed {
				return nil, r, c
			}
			leaves := map[string]string{}
			for i, rw := range b.Rows {
				if !pf {
					if rw.Level == 0 {
						leaves[strings.SplitN(rw.Label, "/", 2)[0]+"/..."] = rw.Amount
					}
					continue
				}
				if i+1 < len(b.Rows) && b.Rows[i+1].Level > rw.Level {
					continue
				}
				leaves[rw.Path] = rw.Amount
			}
			if b.HasTotal {
				leaves["(grand total)"] = b.Total
			}
			return leaves, r, c
		}
		base, rb, cb := leavesOf(nil)
		x.Obs(rb.Key())
		x.Case(fmt.Sprint(names, single), len(names) >= 2)
		if base == nil {
			x.Violate("C15|balance|failed", fmt.Sprintf("`%s`: %s", cb.shell(), rb.String()), nil)
			return
		}
		for _, mode := range [][]string{{"-c"}, {"--collapse-last"}, {"-c", "--collapse-last"}} {
			got, r, c := leavesOf(mode)
			x.Obs(r.Key())
			if fmt.Sprint(got) != fmt.Sprint(base) {
				x.Violate("C15|balance "+strings.Join(mode, " ")+"|different-records", fmt.Sprintf("foods %v\n`%s` shows the leaves %v\n`%s` shows %v\n%s\nvs\n%s", names, cb.shell(), base, c.shell(), got, rb.Stdout, r.Stdout), map[string]interface{}{"cmd": c.shell()})
				return
			}
		}
	})
	// long and short spellings of a flag, and a command and its alias, are the same thing
	aliasPairs := [][2][]string{
		{{"reg"}, {"register"}},
		{{"bal"}, {"balance"}},
		{{"reg", "-s", "cal"}, {"register", "--single-element", "cal"}},
		{{"reg", "-f", "r"}, {"reg", "--single-food", "r"}},
		{{"reg", "-s", "cal", "-g"}, {"reg", "--single-element", "cal", "--group-food"}},
		{{"bal", "-c"}, {"balance", "--collapse"}},
		{{"bal", "-s", "cal"}, {"bal", "--single-element", "cal"}},
		{{"reg", "-b", "2021/01/25"}, {"reg", "--begin", "2021/01/25"}},
		{{"bal", "-e", "2021/01/24"}, {"bal", "--end", "2021/01/24"}},
		{{"print", "-b", "2021/01/25", "-e", "2021/01/25"}, {"print", "--begin", "2021/01/25", "--end", "2021/01/25"}},
		{{"csv", "log", "-b", "2021/01/25"}, {"csv", "log", "--begin", "2021/01/25"}},
		{{"-b", "2021/01/25", "-e", "2021/01/25", "report", "totals"}, {"--begin", "2021/01/25", "--end", "2021/01/25", "report", "totals"}},
		{{"lint", "-s", "log.yaml"}, {"lint", "--silent", "log.yaml"}},
		{{"-d", "food.yaml", "-l", "log.yaml", "reg"}, {"--database", "food.yaml", "--logfile", "log.yaml", "reg"}},
		// the --flag=value spelling, a boolean flag spelt =true, flags before and after one another
		// (NOT the =false spelling: the program reads boolean flags with IsSet, so `--desc=false` sorts descending and
		// `--no-totals=false` hides the totals; no listed property speaks about that spelling - see DESIGN 9.4)
		{{"reg", "-s", "cal"}, {"reg", "--single-element=cal"}},
		{{"reg", "-b", "2021/01/25", "-e", "2021/01/25"}, {"reg", "--end=2021/01/25", "--begin=2021/01/25"}},
		{{"-b", "2021/01/25", "bal", "-c"}, {"--begin=2021/01/25", "bal", "--collapse=true"}},
		{{"reg", "--no-totals"}, {"reg", "--no-totals=true"}},
		{{"reg", "-s", "cal", "-g"}, {"reg", "-g", "-s", "cal"}},
		{{"--maxdepth", "10", "reg"}, {"--maxdepth=10", "reg"}},
		{{"--date-format", "2006/01/02", "print"}, {"--date-format=2006/01/02", "print"}},
	}
	w.Explore("flag-and-command-aliases", ExploreOpts{ShardDepth: 2}, func(x *Exec) {
		pi := x.Choose(len(aliasPairs), "config:alias-pair")
		li := x.Choose(2, "input:log")
		lg := absLog{{Date: "2021/01/24", Entries: []absIng{{"r1", 2}, {"a/b/c", 1}, {"a/b/d", -1}, {"r1", 0.5}}}, {Date: "2021/01/25", Entries: []absIng{{"r1", 1}, {"cal", 3}}}}
		if li == 1 {
			lg = absLog{{Date: "2021/01/25", Entries: []absIng{{"u", 1}}}}
		}
		files := map[string]string{"food.yaml": bookText, "log.yaml": renderLog(lg)}
		ca := appCase{Args: append([]string{"--no-color"}, aliasPairs[pi][0]...), Files: files}
		cb := appCase{Args: append([]string{"--no-color"}, aliasPairs[pi][1]...), Files: files}
		ra, rb := runApp(ca), runApp(cb)
		x.Obs(ra.Key(), rb.Key())
		x.Case(fmt.Sprint(pi, li), true)
		if ra.Key() != rb.Key() {
			x.Violate("C15|alias|"+strings.Join(aliasPairs[pi][1], " "), fmt.Sprintf("`%s` prints\n%s\nbut the equivalent spelling `%s` prints\n%s", ca.shell(), ra.String(), cb.shell(), rb.String()), map[string]interface{}{"cmd": cb.shell()})
		}
	})
	// --desc: same rows, non-increasing order
	w.Explore("descending-order", ExploreOpts{ShardDepth: 3}, func(x *Exec) {
		which := x.Choose(2, "input:report")
		d := absDay{Date: "2021/01/24"}
		n := x.Choose(4, "input:entries")
		for i := 0; i < n; i++ {
			d.Entries = append(d.Entries, absIng{[]string{"r1", "u", "ел 2", "b/c"}[x.Choose(4, "input:food")], []float64{1, -2, 0, 1.5}[x.Choose(4, "input:qty")]})
		}
		files := map[string]string{"food.yaml": bookText + "z:\n  cal: 2\ny:\n  cal: -1\n", "log.yaml": renderLog(absLog{d})}
		cmd := []string{"report", "quantity"}
		tail := []string{}
		if which == 1 {
			cmd = []string{"report", "element-total"}
			tail = []string{"cal"}
		}
		asc := runApp(appCase{Args: append(append([]string{}, cmd...), tail...), Files: files})
		cDesc := appCase{Args: append(append(append([]string{}, cmd...), "--desc"), tail...), Files: files}
		desc := runApp(cDesc)
		x.Obs(asc.Key(), desc.Key())
		x.Case(fmt.Sprint(which, d.Entries), n >= 2 || which == 1)
		if asc.Failed || desc.Failed {
			x.Violate("C15|desc|failed", asc.String()+desc.String(), nil)
			return
		}
		ra, e1 := parseValueName(asc.Stdout)
		rdd, e2 := parseValueName(desc.Stdout)
		if e1 != nil || e2 != nil {
			x.Violate("C15|desc|unparseable", fmt.Sprint(e1, e2), nil)
			return
		}
		key := func(rs []rRow) string {
			s := []string{}
			for _, r := range rs {
				s = append(s, r.Val+"\t"+r.Name)
			}
			sort.Strings(s)
			return strings.Join(s, "\n")
		}
		bad := key(ra) != key(rdd)
		for i := 1; i < len(rdd) && !bad; i++ {
			if dec(rdd[i-1].Val).Cmp(dec(rdd[i].Val)) < 0 {
				bad = true
			}
		}
		for i := 1; i < len(ra) && !bad; i++ {
			if dec(ra[i-1].Val).Cmp(dec(ra[i].Val)) > 0 {
				bad = true
			}
		}
		if bad {
			x.Violate("C15|desc|not-same-rows-in-descending-order", fmt.Sprintf("`%s`\nascending:\n%s\ndescending:\n%s", cDesc.shell(), asc.Stdout, desc.Stdout), map[string]interface{}{"cmd": cDesc.shell()})
		}
	})
}
