package main

// Abstract inputs (ground truth), their default text rendering, and boring
// reference models written independently of the code under test.

import (
	"fmt"
	"math/big"
	"sort"
	"strconv"
	"strings"
)

type absNote struct {
	Name  string // "" for the `# text` form
	Value string
}

type absDay struct {
	Date    string // as written in the file
	Entries []absIng
	Notes   []absNote
}

type absLog []absDay

func fmtNum(v float64) string { return strconv.FormatFloat(v, 'f', -1, 64) }

func renderBook(b absBook) string {
	var sb strings.Builder
	for _, r := range b {
		sb.WriteString(r.Name + ":\n")
		for _, i := range r.Ings {
			sb.WriteString("  " + i.Name + ": " + numText(i) + "\n")
		}
	}
	return sb.String()
}

// ingText: how the quantity of an entry is SPELT in the file, where that is not the shortest decimal (".5", "5.", "+4",
// "1e0"): keyed by the entry, filled by the scenarios that want it (harness/specials.go). The value is the same number.
var ingText = map[absIng]string{}

func numText(i absIng) string {
	if t, ok := ingText[i]; ok {
		return t
	}
	return fmtNum(i.Val)
}

func renderLog(l absLog) string {
	var sb strings.Builder
	for _, d := range l {
		sb.WriteString(d.Date + ":\n")
		for _, n := range d.Notes {
			if n.Name != "" {
				sb.WriteString("  # " + n.Name + ": " + n.Value + "\n")
			} else {
				sb.WriteString("  # " + n.Value + "\n")
			}
		}
		for _, e := range d.Entries {
			sb.WriteString("  " + e.Name + ": " + numText(e) + "\n")
		}
	}
	return sb.String()
}

func (l absLog) String() string {
	var sb strings.Builder
	for _, d := range l {
		sb.WriteString(d.Date + ":")
		for _, e := range d.Entries {
			sb.WriteString(fmt.Sprintf(" %s*%s", e.Name, fmtNum(e.Val)))
		}
		sb.WriteString("; ")
	}
	return sb.String()
}

func rat(v float64) *big.Rat {
	r := new(big.Rat)
	if r.SetFloat64(v) == nil {
		hfail("non-finite quantity %v in generated input", v)
	}
	return r
}

// f2 formats an exact rational like the reports do (%.2f of the float64 value), with
// negative zero normalised away.
func fN(r *big.Rat, prec int) string {
	f, exact := r.Float64()
	if !exact {
		hfail("reference value %s is not exactly representable: the alphabet must keep sums exact", r.String())
	}
	return normNum(strconv.FormatFloat(f, 'f', prec, 64))
}
func f2(r *big.Rat) string { return fN(r, 2) }
func f3(r *big.Rat) string { return fN(r, 3) }

// normNum maps "-0.00" (any precision) to "0.00".
func normNum(s string) string {
	if strings.HasPrefix(s, "-") && strings.Trim(s, "-0.") == "" {
		return s[1:]
	}
	return s
}

// ---- register reference ------------------------------------------------------

type rRow struct {
	Name string
	Val  string
}
type rFood struct {
	Name string
	Qty  string
	Ings []rRow
}
type rTotal struct {
	Name, Pos, Neg, Sum string
}
type rDay struct {
	Date   string
	Foods  []rFood
	Totals []rTotal
}

func (d rDay) String() string {
	s := d.Date + "{"
	for _, f := range d.Foods {
		s += fmt.Sprintf("%s=%s(", f.Name, f.Qty)
		for _, i := range f.Ings {
			s += fmt.Sprintf("%s=%s,", i.Name, i.Val)
		}
		s += ") "
	}
	s += "| "
	for _, t := range d.Totals {
		s += fmt.Sprintf("%s:+%s/%s=%s ", t.Name, t.Pos, t.Neg, t.Sum)
	}
	return s + "}"
}

func daysString(ds []rDay) string {
	parts := make([]string, len(ds))
	for i, d := range ds {
		parts[i] = d.String()
	}
	return strings.Join(parts, "\n")
}

type mergedFood struct {
	Name string
	Qty  *big.Rat
}

// mergeDay: each distinct food once, first-appearance order, summed quantity.
func mergeDay(d absDay) []mergedFood {
	var out []mergedFood
	idx := map[string]int{}
	for _, e := range d.Entries {
		if i, ok := idx[e.Name]; ok {
			out[i].Qty = new(big.Rat).Add(out[i].Qty, rat(e.Val))
		} else {
			idx[e.Name] = len(out)
			out = append(out, mergedFood{e.Name, rat(e.Val)})
		}
	}
	return out
}

func sortedKeys(m map[string]*big.Rat) []string {
	ks := make([]string, 0, len(m))
	for k := range m {
		ks = append(ks, k)
	}
	sort.Strings(ks)
	return ks
}

// refRegister is the reference for the register: per day (in file order) the merged
// foods with their ingredient rows, and the signed totals.
func refRegister(book absBook, l absLog) []rDay {
	resolved := refResolve(book)
	var out []rDay
	for _, d := range l {
		rd := rDay{Date: d.Date}
		pos, neg := map[string]*big.Rat{}, map[string]*big.Rat{}
		touch := func(name string, v *big.Rat) {
			if _, ok := pos[name]; !ok {
				pos[name] = new(big.Rat)
				neg[name] = new(big.Rat)
			}
			if v.Sign() < 0 {
				neg[name] = new(big.Rat).Add(neg[name], v)
			} else {
				pos[name] = new(big.Rat).Add(pos[name], v)
			}
		}
		for _, mf := range mergeDay(d) {
			rf := rFood{Name: mf.Name, Qty: f2(mf.Qty)}
			if els, ok := resolved[mf.Name]; ok {
				for _, en := range sortedKeys(els) {
					v := new(big.Rat).Mul(mf.Qty, els[en])
					rf.Ings = append(rf.Ings, rRow{en, f2(v)})
					touch(en, v)
				}
			} else {
				rf.Ings = append(rf.Ings, rRow{mf.Name, f2(mf.Qty)})
				touch(mf.Name, mf.Qty)
			}
			rd.Foods = append(rd.Foods, rf)
		}
		for _, en := range sortedKeys(pos) {
			rd.Totals = append(rd.Totals, rTotal{en, f2(pos[en]), f2(neg[en]), f2(new(big.Rat).Add(pos[en], neg[en]))})
		}
		out = append(out, rd)
	}
	return out
}
