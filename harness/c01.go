package main

import (
	"fmt"
	"math/big"
	"sort"
	"strings"

	shared "github.com/aquilax/hranoprovod-cli/v3"
)

func init() { propChecks["C01"] = checkC01 }

// refResolve: for every recipe, leaf -> sum over all ingredient paths of the product of
// the coefficients, computed in exact rational arithmetic on the untouched abstract book.
func refResolve(b absBook) map[string]map[string]*big.Rat {
	def := map[string][]absIng{}
	for _, r := range b {
		def[r.Name] = r.Ings
	}
	memo := map[string]map[string]*big.Rat{}
	var res func(name string) map[string]*big.Rat
	res = func(name string) map[string]*big.Rat {
		if m, ok := memo[name]; ok {
			return m
		}
		out := map[string]*big.Rat{}
		for _, i := range def[name] {
			c := new(big.Rat).SetFloat64(i.Val)
			if _, isRecipe := def[i.Name]; isRecipe {
				for leaf, v := range res(i.Name) {
					p := new(big.Rat).Mul(c, v)
					if cur, ok := out[leaf]; ok {
						out[leaf] = new(big.Rat).Add(cur, p)
					} else {
						out[leaf] = p
					}
				}
			} else {
				if cur, ok := out[i.Name]; ok {
					out[i.Name] = new(big.Rat).Add(cur, c)
				} else {
					out[i.Name] = c
				}
			}
		}
		memo[name] = out
		return out
	}
	all := map[string]map[string]*big.Rat{}
	for name := range def {
		all[name] = res(name)
	}
	return all
}

func elementsString(e shared.Elements) string {
	s := "["
	for i, el := range e {
		if i > 0 {
			s += " "
		}
		s += fmt.Sprintf("%s=%v", el.Name, el.Value)
	}
	return s + "]"
}

func refString(m map[string]*big.Rat) string {
	keys := make([]string, 0, len(m))
	for k := range m {
		keys = append(keys, k)
	}
	sort.Strings(keys)
	s := "["
	for i, k := range keys {
		if i > 0 {
			s += " "
		}
		f, _ := m[k].Float64()
		s += fmt.Sprintf("%s=%v", k, f)
	}
	return s + "]"
}

// compareResolved returns "" when got equals the reference exactly: sorted strictly by
// name, one entry per reachable leaf, exact value.
func compareResolved(got shared.Elements, want map[string]*big.Rat) string {
	if len(got) != len(want) {
		return fmt.Sprintf("has %d entries, expected %d", len(got), len(want))
	}
	for i, el := range got {
		if i > 0 && !(got[i-1].Name < el.Name) {
			return fmt.Sprintf("not strictly sorted by name at %q,%q", got[i-1].Name, el.Name)
		}
		w, ok := want[el.Name]
		if !ok {
			return fmt.Sprintf("contains %q which is not a reachable basic element", el.Name)
		}
		g := new(big.Rat)
		if g.SetFloat64(el.Value) == nil {
			return fmt.Sprintf("value of %q is not finite: %v", el.Name, el.Value)
		}
		if g.Cmp(w) != 0 {
			wf, _ := w.Float64()
			return fmt.Sprintf("amount of %q is %v, expected %v", el.Name, el.Value, wf)
		}
	}
	return ""
}

// c01Earlier: books resolved right before the book under test, in the same process (same recipe and element names,
// other shapes and amounts; one is cyclic, one is over its limit)
var c01Earlier = []struct {
	book absBook
	n    int
}{
	{absBook{{"r0", []absIng{{"r1", 3}, {"x", 1}, {"y", -1}}}, {"r1", []absIng{{"r2", 2}, {"y", 4}}}, {"r2", []absIng{{"x", 7}, {"y", 0.5}}}}, 10},
	{absBook{{"r0", []absIng{{"r1", 1}}}, {"r1", []absIng{{"r0", 1}, {"x", 1}}}, {"r2", []absIng{{"y", 1}}}}, 10},
	{absBook{{"r2", []absIng{{"r1", 5}}}, {"r1", []absIng{{"r0", 5}}}, {"r0", []absIng{{"x", 5}}}}, 2},
}

func checkC01(w *Worker) {
	k, L := 3, 2
	coefs := []float64{1, -2} // the multiplicative identity and a negative non-unit
	depthOpts := 1
	budgets := map[string]int{}
	if w.Tier == "thorough" {
		coefs = []float64{1, -2, 0} // (four coefficients with two depth limits: ~10^9 executions, beyond the deadline)
	}
	leaves := []string{"x", "y"}
	earlierCalls := false
	body := func(k, L int, coefs []float64) func(x *Exec) {
		earlierCalls := earlierCalls
		return func(x *Exec) {
			naming := x.Choose(2, "input:naming")
			api := x.Choose(2, "input:api")
			rname := func(i int) string {
				if naming == 1 {
					return fmt.Sprintf("r%d", k-1-i)
				}
				return fmt.Sprintf("r%d", i)
			}
			book := make(absBook, k)
			for i := 0; i < k; i++ {
				book[i].Name = rname(i)
				opts := []string{}
				for j := i + 1; j < k; j++ {
					opts = append(opts, rname(j))
				}
				opts = append(opts, leaves...)
				l := x.Choose(L+1, "input:len")
				for e := 0; e < l; e++ {
					nm := opts[x.Choose(len(opts), "input:ingredient")]
					cf := coefs[x.Choose(len(coefs), "input:coef")]
					book[i].Ings = append(book[i].Ings, absIng{nm, cf})
				}
			}
			// declaration order: also rotate the Push order (last Push wins only for duplicate names; none here)
			hs := refHeight(book)
			depth := maxHeight(hs) + 1
			if depthOpts > 1 && x.Choose(2, "input:maxdepth") == 1 {
				depth = 10
			}
			want := refResolve(book)
			db := book.toDB()
			if earlierCalls {
				// an earlier call in the same process, on another book that shares the recipe names: it must leave nothing behind
				pi := x.Choose(len(c01Earlier), "event:earlier-call")
				func() {
					defer func() {
						if r := recover(); r != nil {
							rethrowSentinel(r)
						}
					}()
					resolveVia(api, c01Earlier[pi].book.toDB(), c01Earlier[pi].n)
				}()
			}
			visits := installMapOrder(x, "env:maporder")
			var err error
			var again func() error
			func() {
				defer uninstallMapOrder()
				defer func() {
					if r := recover(); r != nil {
						rethrowSentinel(r)
						err = fmt.Errorf("PANIC: %v", r)
					}
				}()
				err, again = resolveTwiceVia(api, db, depth)
			}()
			shared_ := 0
			for _, r := range book {
				for _, i := range r.Ings {
					if _, ok := hs[i.Name]; ok {
						shared_++
					}
				}
			}
			x.Case(fmt.Sprintf("%s|%d|%d", book, depth, api), shared_ > 0)
			rep := map[string]interface{}{"book": book.String(), "maxdepth": depth, "api": apiNames[api], "map_visits": *visits}
			if err != nil {
				x.Obs("err", err.Error())
				x.Violate("C01|resolve-failed-on-acyclic-book", fmt.Sprintf("acyclic book {%s} (longest chain %d) with depth limit %d via %s: %v", book, depth-1, depth, apiNames[api], err), rep)
				return
			}
			obs := ""
			for _, r := range book {
				n := db[r.Name]
				if n == nil {
					x.Violate("C01|recipe-lost", fmt.Sprintf("book {%s}: recipe %s missing after resolve", book, r.Name), rep)
					return
				}
				obs += r.Name + elementsString(n.Elements)
				if msg := compareResolved(n.Elements, want[r.Name]); msg != "" {
					rep["recipe"] = r.Name
					rep["got"] = elementsString(n.Elements)
					rep["want"] = refString(want[r.Name])
					x.Violate("C01|wrong-resolution", fmt.Sprintf("book {%s} via %s, visiting order %v: recipe %s resolved to %s, expected %s: %s", book, apiNames[api], *visits, r.Name, elementsString(n.Elements), refString(want[r.Name]), msg), rep)
					return
				}
			}
			if len(db) != len(book) {
				x.Violate("C01|book-size-changed", fmt.Sprintf("book {%s}: %d recipes after resolve, expected %d", book, len(db), len(book)), rep)
			}
			x.Obs(obs)
			x.Sample(map[string]interface{}{"book": book.String(), "api": apiNames[api], "maxdepth": depth, "resolved": obs, "visits": *visits})
			// idempotence: resolving the resolved book changes nothing
			verifshimOff := installMapOrder(x, "env:maporder2")
			_ = verifshimOff
			func() {
				defer uninstallMapOrder()
				defer func() {
					if r := recover(); r != nil {
						rethrowSentinel(r)
						err = fmt.Errorf("PANIC: %v", r)
					}
				}()
				err = again()
			}()
			if err != nil {
				x.Violate("C01|second-resolve-failed", fmt.Sprintf("book {%s}: resolving the already resolved book failed: %v", book, err), rep)
				return
			}
			obs2 := ""
			for _, r := range book {
				obs2 += r.Name + elementsString(db[r.Name].Elements)
			}
			if obs2 != obs {
				x.Violate("C01|not-idempotent", fmt.Sprintf("book {%s}: second resolve changed the result from %s to %s", book, obs, obs2), rep)
			}
		}
	}
	// the same books through the real files and commands: csv database-resolved (every recipe, sorted)
	// and report element-total (one element across recipes), reverse map order
	appBody := func(k, L int, coefs []float64) func(x *Exec) {
		return func(x *Exec) {
			naming := x.Choose(2, "input:naming")
			rname := func(i int) string {
				if naming == 1 {
					return fmt.Sprintf("r%d", k-1-i)
				}
				return fmt.Sprintf("r%d", i)
			}
			book := make(absBook, k)
			for i := 0; i < k; i++ {
				book[i].Name = rname(i)
				opts := []string{}
				for j := i + 1; j < k; j++ {
					opts = append(opts, rname(j))
				}
				opts = append(opts, leaves...)
				l := x.Choose(L+1, "input:len")
				for e := 0; e < l; e++ {
					nm := opts[x.Choose(len(opts), "input:ingredient")]
					cf := coefs[x.Choose(len(coefs), "input:coef")]
					book[i].Ings = append(book[i].Ings, absIng{nm, cf})
				}
			}
			// declaration order in the file: as numbered, or reversed (forward and backward references)
			decl := append(absBook{}, book...)
			if x.Choose(2, "input:declaration-order") == 1 {
				for l, r := 0, len(decl)-1; l < r; l, r = l+1, r-1 {
					decl[l], decl[r] = decl[r], decl[l]
				}
			}
			want := refResolve(book)
			files := map[string]string{"food.yaml": renderBook(decl)}
			x.Case(decl.String(), true)
			c := appCase{Args: []string{"csv", "database-resolved"}, Files: files}
			r := runApp(c)
			x.Obs(r.Key())
			rep := map[string]interface{}{"cmd": c.shell(), "observed": r.String()}
			if r.Failed || r.Panic != "" {
				x.Violate("C01|app|csv database-resolved|failed", fmt.Sprintf("`%s`: %s", c.shell(), r.String()), rep)
				return
			}
			recs, err := parseCSV(r.Stdout)
			if err != nil {
				x.Violate("C01|app|csv database-resolved|unparseable", err.Error(), rep)
				return
			}
			var wantRows []string
			names := []string{}
			for n := range want {
				names = append(names, n)
			}
			sort.Strings(names)
			for _, n := range names {
				for _, el := range sortedKeys(want[n]) {
					wantRows = append(wantRows, n+","+el+","+f2(want[n][el]))
				}
			}
			var gotRows []string
			for _, rec := range recs {
				if len(rec) == 3 {
					rec[2] = normNum(rec[2])
				}
				gotRows = append(gotRows, strings.Join(rec, ","))
			}
			if strings.Join(gotRows, "\n") != strings.Join(wantRows, "\n") {
				x.Violate("C01|app|csv database-resolved|wrong-rows", fmt.Sprintf("`%s`\nrows:\n%s\nexpected (exact path sums, sorted by recipe then element):\n%s", c.shell(), strings.Join(gotRows, "\n"), strings.Join(wantRows, "\n")), rep)
				return
			}
			// report element-total x: one row per recipe that resolves to some x
			c2 := appCase{Args: []string{"report", "element-total", "x"}, Files: files}
			r2 := runApp(c2)
			if r2.Failed || r2.Panic != "" {
				x.Violate("C01|app|element-total|failed", fmt.Sprintf("`%s`: %s", c2.shell(), r2.String()), nil)
				return
			}
			rows, err := parseValueName(r2.Stdout)
			if err != nil {
				x.Violate("C01|app|element-total|unparseable", err.Error(), nil)
				return
			}
			gotM := map[string]string{}
			for _, rw := range rows {
				gotM[rw.Name] = rw.Val
			}
			wantM := map[string]string{}
			for n, els := range want {
				if v, ok := els["x"]; ok {
					wantM[n] = f2(v)
				}
			}
			if fmt.Sprint(gotM) != fmt.Sprint(wantM) || len(rows) != len(wantM) {
				x.Violate("C01|app|element-total|wrong-rows", fmt.Sprintf("`%s`\nrows %v\nexpected %v", c2.shell(), gotM, wantM), map[string]interface{}{"cmd": c2.shell()})
			}
		}
	}
	w.appInit()
	w.Explore("dag-through-files-and-commands", ExploreOpts{ShardDepth: 5}, appBody(3, 2, []float64{1, -2}))
	budgets["env:maporder2"] = 0 // the idempotence pass runs under sorted order (quick) ...
	_ = depthOpts
	// wide recipes: more ingredients / resolved elements than a slice's first capacities (8, 16, 32)
	w.Explore("wide-recipes", ExploreOpts{ShardDepth: 3, Budgets: map[string]int{"env:maporder2": 0}}, func(x *Exec) {
		W := []int{8, 9, 16, 17, 33}[x.Choose(5, "input:width")]
		api := x.Choose(2, "input:api")
		shape := x.Choose(3, "input:shape")
		inner := absRecipe{Name: "inner"}
		for j := 0; j < W; j++ {
			inner.Ings = append(inner.Ings, absIng{fmt.Sprintf("e%02d", (j*7)%W), float64(j%5) - 1.5})
		}
		outer := absRecipe{Name: "outer"}
		switch shape {
		case 0: // sub-recipe first, then leaves that overlap it
			outer.Ings = append(outer.Ings, absIng{"inner", 1}, absIng{"e00", 2}, absIng{fmt.Sprintf("e%02d", W-1), -1}, absIng{"zz", 1})
		case 1: // leaves first, then the wide sub-recipe twice
			outer.Ings = append(outer.Ings, absIng{"zz", 1}, absIng{"e03", 2}, absIng{"inner", -2}, absIng{"inner", 0.5})
		default: // wide list of leaves with repeats after every growth point
			for j := 0; j < W; j++ {
				outer.Ings = append(outer.Ings, absIng{fmt.Sprintf("e%02d", j), 1})
			}
			outer.Ings = append(outer.Ings, absIng{"e00", 0.5}, absIng{"e07", 0.5}, absIng{"inner", 1})
		}
		book := absBook{outer, inner}
		want := refResolve(book)
		db := book.toDB()
		visits := installMapOrder(x, "env:maporder")
		var err error
		func() {
			defer uninstallMapOrder()
			defer func() {
				if r := recover(); r != nil {
					rethrowSentinel(r)
					err = fmt.Errorf("PANIC: %v", r)
				}
			}()
			err = resolveVia(api, db, 10)
		}()
		x.Case(fmt.Sprint("wide", W, api, shape), true)
		if err != nil {
			x.Violate("C01|resolve-failed-on-acyclic-book", fmt.Sprintf("wide book (width %d, shape %d): %v", W, shape, err), nil)
			return
		}
		for _, r := range book {
			if msg := compareResolved(db[r.Name].Elements, want[r.Name]); msg != "" {
				x.Violate("C01|wrong-resolution", fmt.Sprintf("book {%s} via %s, visiting order %v: recipe %s resolved to %s, expected %s: %s", book, apiNames[api], *visits, r.Name, elementsString(db[r.Name].Elements), refString(want[r.Name]), msg), map[string]interface{}{"book": book.String()})
				return
			}
		}
	})
	// a book beyond any "small book" shortcut (80 recipes on three levels, more than 64) resolved as thread "main" of the
	// scheduler: if the resolver works in goroutines, their channel and lock operations are explored (one departure from
	// the default schedule); on the pinned tree this is one execution per entry point
	// (two preemptions on these books are 900 000 executions and 18 minutes: one, in both tiers)
	w.Explore("large-book-under-the-scheduler", ExploreOpts{ShardDepth: 4, Budgets: map[string]int{"env:maporder": 0, "appsched": 1}}, func(x *Exec) {
		api := x.Choose(2, "input:api")
		shape := x.Choose(3, "input:shape-of-the-book") // diverse, diverse declared backwards, seventy recipes sharing one sub-recipe
		book := absBook{}
		for i := 0; i < 20; i++ {
			book = append(book, absRecipe{fmt.Sprintf("base-%02d", i), []absIng{{fmt.Sprintf("el-%02d", i%7), float64(1 + i%3)}, {"cal", float64(i)}}})
		}
		for i := 0; i < 30; i++ {
			book = append(book, absRecipe{fmt.Sprintf("mid-%02d", i), []absIng{{fmt.Sprintf("base-%02d", i%20), 2}, {fmt.Sprintf("base-%02d", (i*7+3)%20), -1}, {"salt", 1}}})
		}
		for i := 0; i < 30; i++ {
			book = append(book, absRecipe{fmt.Sprintf("meal-%02d", i), []absIng{{fmt.Sprintf("mid-%02d", i), 1}, {fmt.Sprintf("mid-%02d", (i*11+5)%30), 3}, {fmt.Sprintf("base-%02d", i%20), 1}}})
		}
		if shape == 1 {
			for l, r := 0, len(book)-1; l < r; l, r = l+1, r-1 {
				book[l], book[r] = book[r], book[l]
			}
		}
		if shape == 2 {
			// forced to collide: every top-level recipe goes through the same sub-recipe
			book = absBook{{"base-00", []absIng{{"el-0", 2}, {"cal", 3}}}, {"base-01", []absIng{{"el-1", 1}, {"cal", 5}}},
				{"mid-00", []absIng{{"base-00", 2}, {"base-01", -1}, {"salt", 1}}}}
			for i := 0; i < 70; i++ {
				book = append(book, absRecipe{fmt.Sprintf("meal-%02d", i), []absIng{{"mid-00", float64(1 + i%3)}, {fmt.Sprintf("base-%02d", i%2), 1}, {fmt.Sprintf("el-%d", i%5), 2}}})
			}
		}
		want := refResolve(book)
		db := book.toDB()
		installMapOrder(x, "env:maporder")
		var err error
		finished := false
		s := NewSched(x)
		s.Class = "appsched"
		s.Go("main", func() {
			err = resolveVia(api, db, 10)
			finished = true
		})
		func() {
			defer uninstallMapOrder()
			s.Run()
		}()
		if s.Stalled {
			x.Case("skip: not schedulable", false)
			x.Note("schedule_exploration_abandoned", 1)
			return
		}
		x.Case(fmt.Sprint("large", api, shape, len(s.Trace)), true)
		x.Note("scheduler_transitions", int64(len(s.Trace)))
		rep := map[string]interface{}{"api": apiNames[api], "recipes": len(book), "schedule": s.Trace}
		if len(s.Panics) > 0 || !finished || err != nil {
			x.Violate("C01|large-book|resolution-fails-or-does-not-return", fmt.Sprintf("80 recipes on three levels via %s, schedule %v: error %v, panics %v, returned: %v (%v)", apiNames[api], tailStr(fmt.Sprint(s.Trace), 600), err, s.Panics, finished, s.ParkedAtEnd()), rep)
			return
		}
		obs := ""
		for _, r := range book {
			n := db[r.Name]
			if n == nil {
				x.Violate("C01|large-book|recipe-lost", "recipe "+r.Name+" missing after resolve", rep)
				return
			}
			obs += elementsString(n.Elements)
			if msg := compareResolved(n.Elements, want[r.Name]); msg != "" {
				x.Violate("C01|large-book|wrong-resolution", fmt.Sprintf("80 recipes on three levels via %s, schedule of the resolver's goroutines %v:\nrecipe %s resolved to %s, expected %s: %s", apiNames[api], tailStr(fmt.Sprint(s.Trace), 800), r.Name, elementsString(n.Elements), refString(want[r.Name]), msg), rep)
				return
			}
		}
		x.Obs(fmt.Sprint(hash64([]byte(obs))))
	})
	// small and cancelling amounts: an element that reaches a recipe along three lines (the element itself, or a sub-recipe
	// that holds it), with amounts and coefficients down to 1/1024 of either sign (all dyadic: every product and every sum
	// is exact) - running sums pass through zero, through values that print as 0.00 and -0.00, and back
	{
		vals := []float64{-1.0 / 256, 1.0 / 512, -1.0 / 1024, -1.0 / 128, 0.5, -1, 1.0 / 256}
		w.Explore("small-and-cancelling-amounts", ExploreOpts{ShardDepth: 4}, func(x *Exec) {
			api := x.Choose(2, "input:api")
			sv := vals[x.Choose(len(vals), "input:amount-in-the-sub-recipe")]
			top := absRecipe{Name: "top"}
			for l := 0; l < 3; l++ {
				v := vals[x.Choose(len(vals), "input:amount-or-coefficient")]
				if x.Choose(2, "input:line-kind") == 1 {
					top.Ings = append(top.Ings, absIng{"sub", v})
				} else {
					top.Ings = append(top.Ings, absIng{"e", v})
				}
			}
			book := absBook{top, {"sub", []absIng{{"e", sv}, {"f", 1}}}}
			want := refResolve(book)
			db := book.toDB()
			err := resolveVia(api, db, 10)
			x.Case(book.String()+fmt.Sprint(api), true)
			rep := map[string]interface{}{"api": apiNames[api], "book": book.String()}
			if err != nil {
				x.Violate("C01|small-amounts|resolution-fails", fmt.Sprintf("book {%s} via %s: %v", book, apiNames[api], err), rep)
				return
			}
			x.Obs(elementsString(db["top"].Elements))
			if msg := compareResolved(db["top"].Elements, want["top"]); msg != "" {
				x.Violate("C01|small-amounts|wrong-resolution", fmt.Sprintf("book {%s} via %s: top resolved to %s, expected %s: %s", book, apiNames[api], elementsString(db["top"].Elements), refString(want["top"]), msg), rep)
			}
		})
	}
	// deep books under limits above the default: a chain of 9..30 recipes (with a plain ingredient at every level; or two
	// heads sharing the tail) resolved under N = chain + 1, 20 and 100 - every recipe is the exact sum of products, whatever
	// order the book map is visited in (identity, reversal, every rotation, every adjacent swap of the sorted names)
	w.Explore("deep-chains-under-larger-limits", ExploreOpts{ShardDepth: 4, Budgets: map[string]int{"env:maporder": 1}}, func(x *Exec) {
		api := x.Choose(2, "input:api")
		n := []int{9, 10, 11, 12, 19, 30}[x.Choose(6, "input:chain-length")]
		limit := []int{n + 1, 20, 100}[x.Choose(3, "input:limit")]
		shape := x.Choose(2, "input:shape")
		if limit <= n {
			x.Case("skip: the limit refuses this chain", false)
			return
		}
		book := absBook{}
		for i := 0; i < n; i++ {
			next := fmt.Sprintf("level-%02d", i+1)
			if i == n-1 {
				next = "leaf"
			}
			book = append(book, absRecipe{fmt.Sprintf("level-%02d", i), []absIng{{next, []float64{2, 0.5, 1, -1}[i%4]}, {"x", float64(1 + i%3)}}})
		}
		if shape == 1 {
			book = append(book, absRecipe{"other-head", []absIng{{"level-01", 3}, {"y", 1}}})
		}
		want := refResolve(book)
		db := book.toDB()
		visits := installMapOrder(x, "env:maporder")
		var err error
		pan := ""
		func() {
			defer uninstallMapOrder()
			defer func() {
				if r := recover(); r != nil {
					rethrowSentinel(r)
					pan = fmt.Sprint(r)
				}
			}()
			err = resolveVia(api, db, limit)
		}()
		x.Case(fmt.Sprint("deep", api, n, limit, shape, *visits), true)
		rep := map[string]interface{}{"api": apiNames[api], "chain": n, "N": limit, "map_visits": *visits}
		if err != nil || pan != "" {
			x.Violate("C01|deep-chain|resolution-fails", fmt.Sprintf("a chain of %d recipes (%d references) under N=%d via %s, visiting order %v: error %v %s", n, n, limit, apiNames[api], *visits, err, pan), rep)
			return
		}
		obs := ""
		for _, r := range book {
			nd := db[r.Name]
			if nd == nil {
				x.Violate("C01|deep-chain|recipe-lost", "recipe "+r.Name+" missing after resolve", rep)
				return
			}
			obs += elementsString(nd.Elements)
			if msg := compareResolved(nd.Elements, want[r.Name]); msg != "" {
				x.Violate("C01|deep-chain|wrong-resolution", fmt.Sprintf("a chain of %d recipes under N=%d via %s, visiting order %v:\nrecipe %s resolved to %s, expected %s: %s", n, limit, apiNames[api], *visits, r.Name, elementsString(nd.Elements), refString(want[r.Name]), msg), rep)
				return
			}
		}
		x.Obs(fmt.Sprint(hash64([]byte(obs))))
	})
	earlierCalls = true
	w.Explore("dag-k3-L1-after-an-earlier-call", ExploreOpts{ShardDepth: 4, Budgets: map[string]int{"env:maporder2": 0}}, body(3, 1, []float64{1, -2}))
	w.Explore("dag-k2-L2-after-an-earlier-call", ExploreOpts{ShardDepth: 4, Budgets: map[string]int{"env:maporder2": 0}}, body(2, 2, []float64{1, -2}))
	earlierCalls = false
	w.Explore(fmt.Sprintf("dag-k%d-L%d", k, L), ExploreOpts{ShardDepth: 4, Budgets: budgets}, body(k, L, coefs))
	if w.Tier == "thorough" {
		w.Explore("dag-k4-L1", ExploreOpts{ShardDepth: 4, Budgets: map[string]int{"env:maporder2": 0}}, body(4, 1, []float64{1, -2}))
		w.Explore("dag-k2-L3", ExploreOpts{ShardDepth: 4, Budgets: map[string]int{"env:maporder2": 1}}, body(2, 3, []float64{1, -2, 0.5, 0, 2}))
	}
}
