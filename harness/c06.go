package main

import (
	"fmt"
	"strconv"
	"strings"
	"time"
)

func init() { propChecks["C06"] = checkC06 }

const c06Today = "2021/01/25"

var c06Window = []string{"2021/01/23", "2021/01/24", "2021/01/25", "2021/01/26", "2021/01/27"}
var c06Boundary = []string{"2021/01/18", "2021/01/17", "2020/12/26", "2020/12/25", "2020/01/25"} // the last one: today's day and month, another year
var c06Keywords = map[string]string{"today": "2021/01/25", "yesterday": "2021/01/24", "last7": "2021/01/18", "last30": "2020/12/26"}
var c06KeywordList = []string{"today", "yesterday", "last7", "last30"}

// dayNumber: days since a fixed origin for a yyyy/mm/dd date (proleptic Gregorian), integer arithmetic only.
func dayNumber(s string) int {
	p := strings.Split(s, "/")
	if len(p) != 3 {
		hfail("bad date %q", s)
	}
	y, _ := strconv.Atoi(p[0])
	m, _ := strconv.Atoi(p[1])
	d, _ := strconv.Atoi(p[2])
	a := (14 - m) / 12
	yy := y + 4800 - a
	mm := m + 12*a - 3
	return d + (153*mm+2)/5 + 365*yy + yy/4 - yy/100 + yy/400 - 32045
}

func resolveBound(v string) (int, bool) {
	if v == "" {
		return 0, false
	}
	if d, ok := c06Keywords[v]; ok {
		return dayNumber(d), true
	}
	return dayNumber(v), true
}

// refFilter keeps the days d with begin <= d <= end.
func refFilter(l absLog, b, e string) absLog {
	bn, hb := resolveBound(b)
	en, he := resolveBound(e)
	var out absLog
	for _, d := range l {
		n := dayNumber(d.Date)
		if hb && n < bn {
			continue
		}
		if he && n > en {
			continue
		}
		out = append(out, d)
	}
	return out
}

type c06Cmd struct {
	Name   string
	Args   []string
	HasSub bool // the sub-command has its own --begin/--end
}

var c06Cmds = []c06Cmd{
	{"reg", []string{"reg"}, true},
	{"bal", []string{"bal"}, true},
	{"csv-log", []string{"csv", "log"}, true},
	{"print", []string{"print"}, true},
	{"report-totals", []string{"report", "totals"}, false},
	{"report-quantity", []string{"report", "quantity"}, false},
	{"report-unresolved", []string{"report", "unresolved"}, false},
	{"reg-single-element", []string{"reg", "-s", "cal"}, true},
}

var c06TZ = []int{0, -5 * 3600, 9 * 3600, -12 * 3600, 14 * 3600}

var c06Book = absBook{{"r", []absIng{{"cal", 2}, {"fat", -0.5}}}}

func c06Log(dates []string) absLog {
	var l absLog
	for i, d := range dates {
		l = append(l, absDay{Date: d, Entries: []absIng{{fmt.Sprintf("m%d", i), float64(i + 1)}, {"r", float64(int(1) << uint(i))}}})
	}
	return l
}

func checkC06(w *Worker) {
	w.appInit()
	bookText := renderBook(c06Book)
	refCache := map[string]AppRun{}
	reference := func(cmd c06Cmd, l absLog, extra []string) AppRun {
		lt := renderLog(l)
		key := cmd.Name + "\x00" + lt + "\x00" + strings.Join(extra, " ")
		args := append([]string{"--no-color", "--today", c06Today}, cmd.Args...)
		args = append(args, extra...)
		rc := appCase{Args: args, Files: map[string]string{"food.yaml": bookText, "log.yaml": lt}}
		return cachedRun(refCache, 200000, key, rc)
	}
	bounds := func(all bool) []string {
		v := []string{""}
		v = append(v, c06Window...)
		v = append(v, c06KeywordList...)
		if all {
			v = append(v, c06Boundary...)
		}
		return v
	}
	period := func(allDates bool, maxDays int, withSummary bool) func(x *Exec) {
		logDates := append([]string{}, c06Window...)
		if allDates {
			logDates = append(logDates, c06Boundary...)
		}
		bs := bounds(true)
		return func(x *Exec) {
			ci := x.Choose(len(c06Cmds)+btoi(withSummary), "input:command")
			pos := x.Choose(3, "layout:position") // 0 global, 1 sub-command, 2 both (global carries a decoy)
			tz := c06TZ[x.Choose(len(c06TZ), "env:tz")]
			n := x.Choose(maxDays+1, "input:days")
			dates := make([]string, n)
			for i := range dates {
				dates[i] = logDates[x.Choose(len(logDates), "input:date")]
			}
			l := c06Log(dates)
			files := map[string]string{"food.yaml": bookText, "log.yaml": renderLog(l)}
			if ci == len(c06Cmds) {
				// summary DATE selects exactly that calendar day
				d := bs[1+x.Choose(len(bs)-1, "input:summary-date")]
				if pos != 0 {
					x.Case("skip", false)
					return
				}
				c := appCase{Args: []string{"--no-color", "--today", c06Today, "summary", d}, Files: files, TZ: tz}
				r := runApp(c)
				x.Obs(r.Key())
				sel := refFilter(l, d, d)
				ref := reference(c06Cmd{"summary", []string{"summary"}, false}, sel, []string{d})
				x.Case(fmt.Sprintf("summary|%v|%s|%d", dates, d, tz), len(sel) > 0 && len(sel) < len(l))
				rep := map[string]interface{}{"cmd": c.shell(), "tz_offset_s": tz, "observed": r.String(), "expected": ref.String()}
				if c06Differs(r, ref) {
					x.Violate("C06|summary|differs-from-restricted-log", fmt.Sprintf("`%s` (TZ offset %ds) on days %v\nprinted:\n%s\nthe same command on the log restricted to that day prints:\n%s", c.shell(), tz, dates, r.String(), ref.String()), rep)
				}
				if (len(sel) > 0) != (strings.TrimSpace(r.Stdout) != "") && !r.Failed {
					x.Violate("C06|summary|emptiness", fmt.Sprintf("`%s` on days %v: output empty=%v but the day occurs %d times", c.shell(), dates, strings.TrimSpace(r.Stdout) == "", len(sel)), rep)
				}
				return
			}
			cmd := c06Cmds[ci]
			b := bs[x.Choose(len(bs), "input:begin")]
			e := bs[x.Choose(len(bs), "input:end")]
			if pos != 0 && !cmd.HasSub {
				x.Case("skip", false)
				return
			}
			args := []string{"--no-color", "--today", c06Today}
			var sub []string
			if b != "" {
				sub = append(sub, "-b", b)
			}
			if e != "" {
				sub = append(sub, "-e", e)
			}
			switch pos {
			case 0:
				args = append(args, sub...)
				args = append(args, cmd.Args...)
			case 1:
				args = append(args, cmd.Args[0])
				args = append(args, sub...)
				args = append(args, cmd.Args[1:]...)
			case 2:
				if b != "" {
					args = append(args, "--begin", "2021/01/27")
				}
				if e != "" {
					args = append(args, "--end", "2021/01/23")
				}
				args = append(args, cmd.Args[0])
				args = append(args, sub...)
				args = append(args, cmd.Args[1:]...)
			}
			if cmd.Name == "csv-log" && pos != 0 { // flags belong to `log`, not to `csv`
				args = []string{"--no-color", "--today", c06Today}
				if pos == 2 {
					if b != "" {
						args = append(args, "--begin", "2021/01/27")
					}
					if e != "" {
						args = append(args, "--end", "2021/01/23")
					}
				}
				args = append(args, "csv", "log")
				args = append(args, sub...)
			}
			c := appCase{Args: args, Files: files, TZ: tz}
			r := runApp(c)
			x.Obs(r.Key())
			sel := refFilter(l, b, e)
			ref := reference(cmd, sel, nil)
			x.Case(fmt.Sprintf("%s|%v|%s|%s|%d|%d", cmd.Name, dates, b, e, pos, tz), len(sel) > 0 && len(sel) < len(l))
			x.Sample(map[string]interface{}{"cmd": c.shell(), "tz_offset_s": tz, "selected_days": len(sel), "stdout": r.Stdout})
			if c06Differs(r, ref) {
				posName := []string{"global", "sub-command", "sub-command-over-global"}[pos]
				kind := "wrong-selection"
				if tz != 0 {
					kind = "wrong-selection-under-tz"
				}
				rep := map[string]interface{}{"cmd": c.shell(), "tz_offset_s": tz, "observed": r.String(), "expected": ref.String(), "log_dates": dates, "begin": b, "end": e}
				x.Violate("C06|"+cmd.Name+"|"+posName+"|"+kind, fmt.Sprintf("`%s` (TZ offset %ds), log days %v, begin=%q end=%q (%s)\nprinted:\n%s\nwith the other days deleted and no period the same command prints:\n%s", c.shell(), tz, dates, b, e, posName, r.String(), ref.String()), rep)
			}
			if x.w.Executions%2999 == 0 && tz == 0 {
				x.w.conform(c, r)
			}
		}
	}
	// a period whose bounds are given at different positions: begin globally and end on the sub-command, the reverse, and a
	// complete global period of which the sub-command overrides one bound only (the other one is inherited)
	w.Explore("period-split-between-global-and-sub-command", ExploreOpts{ShardDepth: 3}, func(x *Exec) {
		var subCmds []c06Cmd
		for _, c := range c06Cmds {
			if c.HasSub {
				subCmds = append(subCmds, c)
			}
		}
		cmd := subCmds[x.Choose(len(subCmds), "input:command")]
		split := x.Choose(4, "layout:split")
		wb := append([]string{}, c06Window...)
		wb = append(wb, "today", "yesterday")
		b := wb[x.Choose(len(wb), "input:begin")]
		e := wb[x.Choose(len(wb), "input:end")]
		tz := []int{0, -5 * 3600}[x.Choose(2, "env:tz")]
		l := c06Log([]string{"2021/01/26", "2021/01/23", "2021/01/25", "2021/01/24", "2021/01/27", "2021/01/25", "2021/01/22"})
		var global, sub []string
		switch split {
		case 0:
			global, sub = []string{"-b", b}, []string{"-e", e}
		case 1:
			global, sub = []string{"-e", e}, []string{"-b", b}
		case 2: // the global end is a decoy
			global, sub = []string{"-b", b, "-e", "2021/01/22"}, []string{"-e", e}
		default: // the global begin is a decoy
			global, sub = []string{"--begin", "2021/01/28", "--end", e}, []string{"--begin", b}
		}
		args := append([]string{"--no-color", "--today", c06Today}, global...)
		if cmd.Name == "csv-log" {
			args = append(args, "csv", "log")
			args = append(args, sub...)
		} else {
			args = append(args, cmd.Args[0])
			args = append(args, sub...)
			args = append(args, cmd.Args[1:]...)
		}
		c := appCase{Args: args, Files: map[string]string{"food.yaml": bookText, "log.yaml": renderLog(l)}, TZ: tz}
		r := runApp(c)
		sel := refFilter(l, b, e)
		ref := reference(cmd, sel, nil)
		x.Obs(r.Key())
		x.Case(fmt.Sprint(cmd.Name, split, b, e, tz), len(sel) > 0 && len(sel) < len(l))
		if c06Differs(r, ref) {
			x.Violate("C06|"+cmd.Name+"|split-period|wrong-selection", fmt.Sprintf("`%s` (TZ offset %ds): begin=%q end=%q\nprinted:\n%s\nwith the other days deleted and no period the same command prints:\n%s", c.shell(), tz, b, e, r.String(), ref.String()),
				map[string]interface{}{"cmd": c.shell(), "observed": r.String(), "expected": ref.String(), "begin": b, "end": e})
		}
	})
	// every special scenario (harness/specials.go) x bounds taken from its own days x every period-aware command
	c06Specials := specialsFor(w.Tier)
	w.Explore("special-scenarios", ExploreOpts{ShardDepth: 3}, func(x *Exec) {
		sc := c06Specials[x.Choose(len(c06Specials), "input:scenario")]
		cmd := c06Cmds[x.Choose(len(c06Cmds), "input:command")]
		ds := []string{""}
		seen := map[string]bool{}
		for _, d := range sc.Log {
			if !seen[d.Date] {
				seen[d.Date] = true
				ds = append(ds, d.Date)
			}
		}
		if len(ds) > 16 {
			// a long log: bounds at its ends, around the powers of two, and every date that is out of order or repeated
			keep := map[int]bool{0: true}
			n := len(ds) - 1
			for _, i := range []int{1, 2, 3, 32, 33, 64, 65, 128, 129, 256, 257, n / 2, n - 1, n} {
				if i >= 1 && i <= n {
					keep[i] = true
				}
			}
			count := map[string]int{}
			for _, d := range sc.Log {
				count[d.Date]++
			}
			for i := 1; i <= n; i++ {
				if count[ds[i]] > 1 || (i > 1 && ds[i] < ds[i-1]) {
					keep[i] = true
				}
			}
			var sub []string
			for i := range ds {
				if keep[i] {
					sub = append(sub, ds[i])
				}
			}
			ds = sub
		}
		b := ds[x.Choose(len(ds), "input:begin")]
		e := ds[x.Choose(len(ds), "input:end")]
		if b == "" && e == "" {
			x.Case("skip: no period", false)
			return
		}
		book := renderBook(sc.Book)
		args := []string{"--no-color", "--today", c06Today}
		if b != "" {
			args = append(args, "-b", b)
		}
		if e != "" {
			args = append(args, "-e", e)
		}
		c := appCase{Args: append(args, cmd.Args...), Files: map[string]string{"food.yaml": book, "log.yaml": renderLog(sc.Log)}}
		r := runApp(c)
		sel := refFilter(sc.Log, b, e)
		ref := runApp(appCase{Args: append([]string{"--no-color", "--today", c06Today}, cmd.Args...), Files: map[string]string{"food.yaml": book, "log.yaml": renderLog(sel)}})
		x.Obs(r.Key())
		x.Case(fmt.Sprint(sc.Name, cmd.Name, b, e), len(sel) > 0 && len(sel) < len(sc.Log))
		if c06Differs(r, ref) {
			x.Violate("C06|"+cmd.Name+"|special-scenario|wrong-selection", fmt.Sprintf("scenario %s: `%s`\nprinted:\n%s\nwith the other days deleted and no period the same command prints:\n%s", sc.Name, tailStr(c.shell(), 1500), tailStr(r.String(), 1500), tailStr(ref.String(), 1500)),
				map[string]interface{}{"scenario": sc.Name, "begin": b, "end": e, "command": cmd.Name})
		}
	})
	// every period-aware command shape of the master list (global flags), on the window with a reduced set of bounds
	shapes := shapeArgs(func(s cmdShape) bool { return s.Period })
	// zones with daylight-saving rules: keyword bounds are calendar arithmetic on --today, and a transition between
	// the bound and today must not move the bound off the day's heading. Every zone x every --today next to one of
	// the 2021 transitions x every keyword as begin or end x a log of the days around the bound.
	dstZones := []string{"Europe/Berlin", "Europe/London", "America/New_York", "Australia/Lord_Howe", "America/St_Johns", "Pacific/Auckland", "Asia/Kathmandu", "America/Santiago"}
	dstTodays := []string{"2021/03/17", "2021/03/29", "2021/04/06", "2021/04/12", "2021/09/27", "2021/10/04", "2021/11/01", "2021/11/08", "2021/04/26", "2021/10/30"}
	fromDayNumber := func(n int) string { // inverse of dayNumber (integer arithmetic only)
		a := n + 32044
		b := (4*a + 3) / 146097
		c := a - 146097*b/4
		d := (4*c + 3) / 1461
		e := c - 1461*d/4
		m := (5*e + 2) / 153
		return fmt.Sprintf("%04d/%02d/%02d", 100*b+d-4800+m/10, m+3-12*(m/10), e-(153*m+2)/5+1)
	}
	if fromDayNumber(dayNumber("2021/03/01")) != "2021/03/01" || fromDayNumber(dayNumber("2020/12/31")-30) != "2020/12/01" {
		hfail("fromDayNumber is wrong")
	}
	dstCmds := [][]string{{"print"}, {"reg"}, {"report", "quantity"}}
	if w.Tier == "thorough" {
		// every day of 2021 as --today, every period-aware command
		dstTodays = nil
		for n := dayNumber("2021/01/01"); n <= dayNumber("2021/12/31"); n++ {
			dstTodays = append(dstTodays, fromDayNumber(n))
		}
		dstCmds = nil
		for _, c := range c06Cmds {
			dstCmds = append(dstCmds, c.Args)
		}
		dstZones = append(dstZones, "America/Sao_Paulo", "Asia/Tehran", "Africa/Casablanca", "Europe/Dublin", "Antarctica/Troll", "Pacific/Chatham")
	}
	w.Explore("daylight-saving-zones", ExploreOpts{ShardDepth: 3}, func(x *Exec) {
		zone := dstZones[x.Choose(len(dstZones), "env:tz")]
		today := dstTodays[x.Choose(len(dstTodays), "input:today")]
		kw := x.Choose(len(c06KeywordList), "input:keyword")
		side := x.Choose(3, "input:bound") // begin, end, both
		cmd := dstCmds[x.Choose(len(dstCmds), "input:command")]
		if !zoneAvailable(zone) {
			x.Case("zone-not-available|"+zone, false)
			x.Note("tz_database_zone_missing", 1)
			return
		}
		bn := dayNumber(today) - []int{0, 1, 7, 30}[kw]
		var lg, sel absLog
		for i, off := range []int{-31, -8, -2, -1, 0, 1, 2, 8, 31} {
			d := absDay{Date: fromDayNumber(bn + off), Entries: []absIng{{fmt.Sprintf("m%d", i), float64(i + 1)}, {"r", 1}}}
			lg = append(lg, d)
			if (side == 0 && off >= 0) || (side == 1 && off <= 0) || (side == 2 && off == 0) {
				sel = append(sel, d)
			}
		}
		args := []string{"--no-color", "--today", today}
		k := c06KeywordList[kw]
		switch side {
		case 0:
			args = append(args, "-b", k)
		case 1:
			args = append(args, "-e", k)
		default:
			args = append(args, "-b", k, "-e", k)
		}
		c := appCase{Args: append(args, cmd...), Files: map[string]string{"food.yaml": bookText, "log.yaml": renderLog(lg)}, TZName: zone}
		r := runApp(c)
		ref := runApp(appCase{Args: append([]string{"--no-color", "--today", today}, cmd...), Files: map[string]string{"food.yaml": bookText, "log.yaml": renderLog(sel)}})
		x.Obs(r.Key())
		x.Case(fmt.Sprint(zone, today, k, side, cmd), true)
		if c06Differs(r, ref) {
			x.Violate("C06|"+strings.Join(cmd, " ")+"|daylight-saving-zone|differs-from-restricted-log", fmt.Sprintf("`%s` (--today %s, bound %s = %s)\nprinted:\n%s\nwith the other days deleted and no period the same command prints:\n%s", c.shell(), today, k, fromDayNumber(bn), r.String(), ref.String()),
				map[string]interface{}{"cmd": c.shell(), "observed": r.String(), "expected": ref.String()})
		}
	})
	// other date formats (no year, two-digit year, ISO, day first): the same period semantics on the days as the
	// format reads them; bounds absent, on a log day, between log days; keyword bounds against --today
	c06Formats := []string{"01/02", "06.01.02", "2006-01-02", "2.1.2006", "Jan 2"}
	fmtBounds := []string{"", "2021/01/23", "2021/01/24", "2021/01/25", "2021/01/26", "today", "yesterday"}
	w.Explore("date-formats-x-open-and-closed-periods", ExploreOpts{ShardDepth: 4}, func(x *Exec) {
		format := c06Formats[x.Choose(len(c06Formats), "config:date-format")]
		ci := x.Choose(len(c06Cmds), "input:command")
		b := fmtBounds[x.Choose(len(fmtBounds), "input:begin")]
		e := fmtBounds[x.Choose(len(fmtBounds), "input:end")]
		conv := func(d string) string {
			if d == "" || c06Keywords[d] != "" {
				return d
			}
			t, err := time.Parse("2006/01/02", d)
			if err != nil {
				hfail("bad date %q", d)
			}
			return t.Format(format)
		}
		all := c06Log([]string{"2021/01/26", "2021/01/24", "2020/12/31", "2021/01/25", "2021/01/24", "2021/02/01"})
		sel := refFilter(all, b, e)
		if !strings.Contains(format, "2006") && !strings.Contains(format, "06") {
			// without a year 2020/12/31 reads as a day late in the same (year-less) year
			sel = nil
			lo, hi := 0, 1<<30
			if n, ok := resolveBound(b); ok {
				lo = n
			}
			if n, ok := resolveBound(e); ok {
				hi = n
			}
			for _, d := range all {
				n := dayNumber(d.Date)
				if d.Date == "2020/12/31" {
					n = dayNumber("2021/12/31")
				}
				if n >= lo && n <= hi {
					sel = append(sel, d)
				}
			}
		}
		inFormat := func(l absLog) string {
			var out absLog
			for _, d := range l {
				d.Date = conv(d.Date)
				out = append(out, d)
			}
			return renderLog(out)
		}
		args := []string{"--no-color", "--date-format", format, "--today", conv(c06Today)}
		if b != "" {
			args = append(args, "-b", conv(b))
		}
		if e != "" {
			args = append(args, "-e", conv(e))
		}
		cmd := c06Cmds[ci]
		c := appCase{Args: append(args, cmd.Args...), Files: map[string]string{"food.yaml": bookText, "log.yaml": inFormat(all)}}
		r := runApp(c)
		ref := runApp(appCase{Args: append([]string{"--no-color", "--date-format", format, "--today", conv(c06Today)}, cmd.Args...), Files: map[string]string{"food.yaml": bookText, "log.yaml": inFormat(sel)}})
		x.Obs(r.Key())
		x.Case(fmt.Sprint(format, ci, b, e), b != "" || e != "")
		if c06Differs(r, ref) {
			x.Violate("C06|"+cmd.Name+"|date-format|differs-from-restricted-log", fmt.Sprintf("`%s`\nprinted:\n%s\nwith the other days deleted and no period the same command prints:\n%s", c.shell(), r.String(), ref.String()),
				map[string]interface{}{"cmd": c.shell(), "observed": r.String(), "expected": ref.String()})
		}
	})
	// keyword bounds across the turn of the year under formats that do not carry the full year: "yesterday" on 1 January is
	// the last day of the year BEFORE the one the headings are read in - whatever the format can or cannot write down,
	// the bound is today minus so many days
	w.Explore("keywords-across-the-turn-of-the-year-in-lossy-formats", ExploreOpts{ShardDepth: 4}, func(x *Exec) {
		format := []string{"01/02", "Jan 2", "06.01.02", "2006/01/02"}[x.Choose(4, "config:date-format")]
		ci := x.Choose(len(c06Cmds), "input:command")
		kw := x.Choose(4, "input:keyword")
		side := x.Choose(2, "input:side")
		ti := x.Choose(3, "input:today")
		year := 2021
		if format == "06.01.02" {
			year = 1969 // the pivot of two-digit years
		}
		todayT := time.Date(year, 1, []int{1, 3, 15}[ti], 0, 0, 0, 0, time.UTC)
		back := []int{0, 1, 7, 30}[kw]
		keyword := []string{"today", "yesterday", "last7", "last30"}[kw]
		today, _ := time.Parse(format, todayT.Format(format))
		bound := today.AddDate(0, 0, -back)
		var all, sel absLog
		for i, off := range []int{-40, -31, -8, -7, -2, -1, 0, 1, 5} {
			d := todayT.AddDate(0, 0, off)
			day := absDay{Date: d.Format(format), Entries: []absIng{{fmt.Sprintf("m%d", i), float64(i + 1)}, {"r", 1}}}
			all = append(all, day)
			// as the heading reads under the format (a year-less heading lies in the year the format gives it)
			read, err := time.Parse(format, day.Date)
			if err != nil {
				hfail("heading %q under %q: %v", day.Date, format, err)
			}
			if (side == 0 && !read.Before(bound)) || (side == 1 && !read.After(bound)) {
				sel = append(sel, day)
			}
		}
		args := []string{"--no-color", "--date-format", format, "--today", todayT.Format(format)}
		cmd := c06Cmds[ci]
		c := appCase{Args: append(append(append([]string{}, args...), []string{"-b", "-e"}[side], keyword), cmd.Args...), Files: map[string]string{"food.yaml": bookText, "log.yaml": renderLog(all)}}
		r := runApp(c)
		ref := runApp(appCase{Args: append(append([]string{}, args...), cmd.Args...), Files: map[string]string{"food.yaml": bookText, "log.yaml": renderLog(sel)}})
		x.Obs(r.Key())
		x.Case(fmt.Sprint(format, ci, keyword, side, ti), len(sel) > 0 && len(sel) < len(all))
		if c06Differs(r, ref) {
			x.Violate("C06|"+cmd.Name+"|keyword-across-the-year|differs-from-restricted-log", fmt.Sprintf("`%s`\nprinted:\n%s\nwith the other days deleted and no period the same command prints:\n%s", c.shell(), r.String(), ref.String()),
				map[string]interface{}{"cmd": c.shell(), "observed": r.String(), "expected": ref.String()})
		}
	})
	smallBounds := []string{"", "2021/01/24", "2021/01/25", "2021/01/26", "today", "yesterday", "last7"}
	w.Explore("all-period-aware-command-shapes", ExploreOpts{ShardDepth: 4}, func(x *Exec) {
		si := x.Choose(len(shapes), "input:command-shape")
		n := x.Choose(3, "input:days")
		dates := make([]string, n)
		for i := range dates {
			dates[i] = c06Window[x.Choose(len(c06Window), "input:date")]
		}
		b := smallBounds[x.Choose(len(smallBounds), "input:begin")]
		e := smallBounds[x.Choose(len(smallBounds), "input:end")]
		l := c06Log(dates)
		files := map[string]string{"food.yaml": bookText, "log.yaml": renderLog(l)}
		args := []string{"--no-color", "--today", c06Today}
		if b != "" {
			args = append(args, "-b", b)
		}
		if e != "" {
			args = append(args, "-e", e)
		}
		c := appCase{Args: append(args, shapes[si]...), Files: files}
		r := runApp(c)
		sel := refFilter(l, b, e)
		ref := runApp(appCase{Args: append([]string{"--no-color", "--today", c06Today}, shapes[si]...), Files: map[string]string{"food.yaml": bookText, "log.yaml": renderLog(sel)}})
		x.Obs(r.Key())
		name := strings.Join(shapes[si], " ")
		x.Case(fmt.Sprint(name, dates, b, e), len(sel) > 0 && len(sel) < len(l))
		if c06Differs(r, ref) {
			x.Violate("C06|"+name+"|global|wrong-selection", fmt.Sprintf("`%s`, log days %v, begin=%q end=%q\nprinted:\n%s\nwith the other days deleted and no period the same command prints:\n%s", c.shell(), dates, b, e, r.String(), ref.String()),
				map[string]interface{}{"cmd": c.shell(), "observed": r.String(), "expected": ref.String()})
		}
	})
	if w.Tier == "quick" {
		w.Explore("utc-global-alldates-le2days", ExploreOpts{ShardDepth: 6, Budgets: map[string]int{"layout:position": 0, "env:tz": 0}}, period(true, 2, true))
		w.Explore("utc-global-window-le3days", ExploreOpts{ShardDepth: 6, Budgets: map[string]int{"layout:position": 0, "env:tz": 0}}, period(false, 3, true))
		w.Explore("position-tz-dev1-window-le2days", ExploreOpts{ShardDepth: 6, Budgets: map[string]int{"layout:position": 1, "env:tz": 1}}, period(false, 2, true))
		return
	}
	w.Explore("utc-global-alldates-le3days", ExploreOpts{ShardDepth: 6, Budgets: map[string]int{"layout:position": 0, "env:tz": 0}}, period(true, 3, true))
	w.Explore("position-x-tz-product-window-le2days", ExploreOpts{ShardDepth: 6}, period(false, 2, true))
}

func btoi(b bool) int {
	if b {
		return 1
	}
	return 0
}

// c06Differs: every bound used by this check is a legal date or keyword, so a command that FAILS has not selected the
// period either - even when the reference run happens to fail in the same way (a differential oracle alone would
// call two identical failures an agreement).
func c06Differs(r, ref AppRun) bool {
	return r.Failed || ref.Failed || r.Panic != "" || ref.Panic != "" || r.Key() != ref.Key()
}
