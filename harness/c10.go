package main

import (
	"fmt"
	"io/ioutil"
	"os"
	"path/filepath"
	"strings"

	shared "github.com/aquilax/hranoprovod-cli/v3"
	"github.com/aquilax/hranoprovod-cli/v3/parser"
)

func init() { propChecks["C10"] = checkC10 }

var c10Files = []string{
	"r1:\n  cal: 2\n",
	"r1:\n  cal: 2\nr2:\n  fat: 1\n",
	"r1:\n  cal: 2\n  fat: 3\nr2:\n  r1: 1\n",
	"r1:\n  cal: 2",
	"r1:\r\n  cal: 2\r\nr2:\r\n  fat: 1\r\n",
	"r1:\n  cal: 2\n# trailing comment\n",
	"r1:\n  cal: 2\n\nr2:\n",
	"a:\n  x: 1\nb:\n  x: 2\nc:\n  x: 3\n",
}

var c10Logs = []string{
	"2021/01/24:\n  r1: 1\n",
	"2021/01/24:\n  r1: 1\n2021/01/25:\n  u: 2\n",
	"2021/01/24:\n  r1: 1\n  u: 3\n2021/01/25:\n  r1: 2",
	"2021/01/24:\n  # note: x\n  r1: 1\n2021/01/25:\n  r1: 2\n2021/01/26:\n  u: 1\n",
}

type c10Cmd struct {
	Args []string
	Db   bool
	Log  bool
}

var c10Cmds = func() []c10Cmd {
	var out []c10Cmd
	for _, s := range allShapes {
		if s.Args[0] == "stats" {
			continue // opens its files itself: covered on real files below
		}
		out = append(out, c10Cmd{s.Args, s.Db, s.Log})
	}
	return out
}()

func parseWithReader(r *faultReader) (string, error, string) {
	var sb strings.Builder
	pan := ""
	var ret error
	func() {
		defer func() {
			if rec := recover(); rec != nil {
				switch rec.(type) {
				case abortNotMine, harnessError:
					panic(rec)
				}
				pan = fmt.Sprint(rec)
			}
		}()
		ret = parser.ParseStreamCallback(r, parser.NewDefaultConfig(), func(n *shared.ParserNode, err error) (bool, error) {
			if err != nil {
				sb.WriteString("ERR(" + err.Error() + ");")
				return true, err
			}
			sb.WriteString(fmt.Sprintf("%q%v;", n.Header, n.Elements))
			return false, nil
		})
	}()
	return sb.String(), ret, pan
}

func checkC10(w *Worker) {
	w.appInit()
	files := append([]string{}, c10Files...)
	logs := append([]string{}, c10Logs...)
	// ---- lib level: every offset x delivery x chunking
	w.Explore("parser-read-faults", ExploreOpts{ShardDepth: 2}, func(x *Exec) {
		all := append(append([]string{}, files...), logs...)
		fi := x.Choose(len(all), "input:file")
		data := all[fi]
		k := x.Choose(len(data)+2, "fault:offset") // len+1: no fault
		together := x.Choose(2, "fault:delivery") == 1
		chunk := []int{0, 1, 2, 7}[x.Choose(4, "env:chunk")]
		full, fret, _ := parseWithReader(&faultReader{data: []byte(data), FailAt: len(data) + 1, Chunk: chunk})
		if fret != nil {
			x.Case("skip: the complete file is rejected (C04's business)", false)
			x.Note("complete_file_rejected", 1)
			return
		}
		fr := &faultReader{data: []byte(data), FailAt: k, Chunk: chunk, Together: together}
		got, ret, pan := parseWithReader(fr)
		x.Obs(got, fmt.Sprint(ret), pan)
		x.Case(fmt.Sprint(fi, k, together, chunk), fr.Failed)
		x.Sample(map[string]interface{}{"file": data, "fail_at": k, "error_with_last_bytes": together, "chunk": chunk, "callbacks": got, "returned": fmt.Sprint(ret)})
		if pan != "" {
			x.Violate("C10|parser|panic", fmt.Sprintf("file %q, reader failing at byte %d: panic %s", data, k, pan), nil)
			return
		}
		if ret == nil && got == full && k <= len(data) {
			x.Violate("C10|parser|success-although-the-read-failed", fmt.Sprintf("file %q, reader failing at byte %d of %d (chunk %d, error with last bytes: %v): the parser returned nil (the records happen to be complete, but the read error was swallowed)", data, k, len(data), chunk, together),
				map[string]interface{}{"file": data, "fail_at": k, "chunk": chunk, "together": together})
			return
		}
		if ret == nil && got != full {
			x.Violate("C10|parser|success-on-a-prefix", fmt.Sprintf("file %q, reader failing at byte %d (chunk %d, error with last bytes: %v): the parser returned nil after delivering only %s; the complete file gives %s", data, k, chunk, together, got, full),
				map[string]interface{}{"file": data, "fail_at": k, "chunk": chunk, "together": together})
		}
	})
	// ---- every generated skeleton file (<= 2 records x <= 2 items of every kind, README layout; thorough: 3 x 2): every offset
	gr, ge := 2, 2
	if w.Tier == "thorough" {
		gr, ge = 3, 2
	}
	w.Explore("parser-read-faults-generated-files", ExploreOpts{ShardDepth: 4, Budgets: map[string]int{"layout": 0}}, func(x *Exec) {
		f := genSkeleton(x, gr, ge, false)
		data, _ := renderFile(x, f, renderOpts{})
		k := x.Choose(len(data)+1, "fault:offset")
		together := x.Choose(2, "fault:delivery") == 1
		chunk := []int{0, 1, 3}[x.Choose(3, "env:chunk")]
		full, fret, _ := parseWithReader(&faultReader{data: []byte(data), FailAt: len(data) + 1, Chunk: chunk})
		if fret != nil {
			x.Case("skip: complete file rejected", false)
			return
		}
		fr := &faultReader{data: []byte(data), FailAt: k, Chunk: chunk, Together: together}
		got, ret, pan := parseWithReader(fr)
		x.Obs(got, fmt.Sprint(ret), pan)
		x.Case(fmt.Sprint(data, k, together, chunk), fr.Failed)
		if pan != "" {
			x.Violate("C10|parser|panic", fmt.Sprintf("file %q, reader failing at byte %d: panic %s", data, k, pan), nil)
			return
		}
		if ret == nil {
			kind := "success-although-the-read-failed"
			if got != full {
				kind = "success-on-a-prefix"
			}
			x.Violate("C10|parser|"+kind, fmt.Sprintf("file %q, reader failing at byte %d of %d (chunk %d, error with last bytes: %v): the parser returned nil after delivering %s (complete file: %s)", data, k, len(data), chunk, together, got, full),
				map[string]interface{}{"file": data, "fail_at": k, "chunk": chunk, "together": together})
		}
	})
	// ---- a file of ~10 KB: offsets around every 4096-byte boundary, the first and last 40 bytes, stride 211
	var big strings.Builder
	for r := 0; r < 260; r++ {
		big.WriteString(fmt.Sprintf("rec%03d:\n  element/%d: %d\n  # n: %d\n", r, r, r, r))
	}
	bigData := big.String()
	var bigOffs []int
	for k := 0; k <= 40; k++ {
		bigOffs = append(bigOffs, k, len(bigData)-k)
	}
	for m := 4096; m < len(bigData)+4096; m += 4096 {
		for d := -3; d <= 3; d++ {
			if m+d <= len(bigData) {
				bigOffs = append(bigOffs, m+d)
			}
		}
	}
	for k := 0; k < len(bigData); k += 211 {
		bigOffs = append(bigOffs, k)
	}
	w.Explore("parser-read-faults-large-file", ExploreOpts{ShardDepth: 2}, func(x *Exec) {
		k := bigOffs[x.Choose(len(bigOffs), "fault:offset")]
		together := x.Choose(2, "fault:delivery") == 1
		chunk := []int{0, 1000, 4096}[x.Choose(3, "env:chunk")]
		full, fret, _ := parseWithReader(&faultReader{data: []byte(bigData), FailAt: len(bigData) + 1, Chunk: chunk})
		if fret != nil {
			x.Case("skip: the complete file is rejected (C04's business)", false)
			x.Note("complete_file_rejected", 1)
			return
		}
		fr := &faultReader{data: []byte(bigData), FailAt: k, Chunk: chunk, Together: together}
		got, ret, pan := parseWithReader(fr)
		x.Obs(fmt.Sprint(len(got), ret, pan))
		x.Case(fmt.Sprint("big", k, together, chunk), fr.Failed)
		if pan != "" {
			x.Violate("C10|parser|panic", fmt.Sprintf("10 KB file, reader failing at byte %d: panic %s", k, pan), nil)
			return
		}
		if ret == nil && got != full {
			x.Violate("C10|parser|success-on-a-prefix|large-file", fmt.Sprintf("file of %d bytes, reader failing at byte %d (chunk %d, error with last bytes: %v): the parser returned nil after delivering %d bytes of callbacks instead of %d", len(bigData), k, chunk, together, len(got), len(full)),
				map[string]interface{}{"fail_at": k, "chunk": chunk, "together": together, "file_bytes": len(bigData)})
		}
		if i := strings.Index(got, "ERR("); i >= 0 {
			got = got[:i] // a truncated last line may be reported as malformed: that is still an error
		}
		if ret != nil && !strings.HasPrefix(full, got) {
			x.Violate("C10|parser|garbled-records-before-failure", fmt.Sprintf("reader failing at byte %d: the records delivered before the failure are not a prefix of the complete file's records", k), nil)
		}
	})
	// ---- command level through the CmdUtils seam
	w.Explore("command-read-faults", ExploreOpts{ShardDepth: 3}, func(x *Exec) {
		ci := x.Choose(len(c10Cmds), "input:command")
		cmd := c10Cmds[ci]
		which := 0
		if cmd.Db && cmd.Log {
			which = x.Choose(2, "fault:which-file")
		} else if cmd.Log {
			which = 1
		}
		db := files[x.Choose(3, "input:book")]
		lg := logs[x.Choose(len(logs), "input:log")]
		target, name := db, "food.yaml"
		if which == 1 {
			target, name = lg, "log.yaml"
		}
		k := x.Choose(len(target)+1, "fault:offset")
		together := x.Choose(2, "fault:delivery") == 1
		chunk := []int{0, 1}[x.Choose(2, "env:chunk")]
		fl := map[string]string{"food.yaml": db, "log.yaml": lg}
		// a period may be active: the days after it must still be read completely
		periodFlags := [][]string{nil, {"-e", "2021/01/24"}, {"-b", "2021/01/24", "-e", "2021/01/24"}, {"-b", "2021/01/25"}}[x.Choose(4, "config:period")]
		if cmd.Args[0] == "lint" || cmd.Args[0] == "summary" || !cmd.Log {
			periodFlags = nil
		}
		args := append(append([]string{"--no-color"}, periodFlags...), cmd.Args...)
		base := runCU(cuCase{Args: args, Files: fl})
		fr := &faultReader{data: []byte(target), FailAt: k, Chunk: chunk, Together: together}
		r := runCU(cuCase{Args: args, Files: fl, Readers: map[string]*faultReader{name: fr}})
		x.Obs(r.Key())
		x.Case(fmt.Sprint(ci, which, k, together, chunk, db, lg, periodFlags), fr.Failed)
		cname := strings.Join(cmd.Args, " ")
		if periodFlags != nil {
			cname = "(with a period) " + cname
		}
		if r.Panic != "" {
			x.Violate("C10|"+cname+"|panic", r.String(), nil)
			return
		}
		if !r.Failed && r.Stdout == base.Stdout {
			// the report happens to be complete, but the file could not be read completely (the reader fails at
			// byte k <= len whether or not the command got that far): the first sentence of the property wants an error
			x.Violate("C10|"+cname+"|success-although-the-file-cannot-be-read-completely", fmt.Sprintf("`%s`: %s cannot be read past byte %d of %d (chunk %d, error with last bytes: %v; the command read %d bytes) and the command reports success\n%s:\n%s", strings.Join(args, " "), name, k, len(target), chunk, together, fr.pos, name, target),
				map[string]interface{}{"cmd": cname, "args": args, "file": name, "content": target, "fail_at": k, "bytes_read": fr.pos})
			return
		}
		if !r.Failed && r.Stdout != base.Stdout {
			x.Violate("C10|"+cname+"|success-on-a-prefix", fmt.Sprintf("`%s`: %s fails to be read at byte %d of %d (chunk %d, error with last bytes: %v) and the command reports success with\n%s\ninstead of the report of the complete file\n%s\n%s:\n%s", cname, name, k, len(target), chunk, together, r.Stdout, base.Stdout, name, target),
				map[string]interface{}{"cmd": cname, "file": name, "content": target, "fail_at": k, "chunk": chunk, "together": together})
		}
	})
	// ---- command level, files of ~10 KB (book and log): faults around every 4096-byte boundary, at both ends and on a stride
	var bigBook, bigLog strings.Builder
	for r := 0; r < 200; r++ {
		bigBook.WriteString(fmt.Sprintf("food/%03d:\n  cal: %d\n  fat: 1\n  element/%d: 2\n", r, r, r%7))
	}
	for d := 0; d < 150; d++ {
		bigLog.WriteString(fmt.Sprintf("20%02d/%02d/%02d:\n  food/%03d: 1\n  # n: %d\n  unknown/%d: 2\n", 21+d/336, 1+(d/28)%12, 1+d%28, d, d, d%5))
	}
	bigFiles := []string{bigBook.String(), bigLog.String()}
	stride := 1021
	if w.Tier == "thorough" {
		stride = 61
	}
	offsFor := func(n int) []int {
		seen := map[int]bool{}
		var out []int
		add := func(k int) {
			if k >= 0 && k <= n && !seen[k] {
				seen[k] = true
				out = append(out, k)
			}
		}
		for k := 0; k <= 8; k++ {
			add(k)
			add(n - k)
		}
		for m := 4096; m < n+4096; m += 4096 {
			for d := -2; d <= 2; d++ {
				add(m + d)
			}
		}
		for k := 0; k < n; k += stride {
			add(k)
		}
		return out
	}
	bigOffsets := [][]int{offsFor(len(bigFiles[0])), offsFor(len(bigFiles[1]))}
	w.Explore("command-read-faults-large-files", ExploreOpts{ShardDepth: 3}, func(x *Exec) {
		ci := x.Choose(len(c10Cmds), "input:command")
		cmd := c10Cmds[ci]
		which := 0
		if cmd.Db && cmd.Log {
			which = x.Choose(2, "fault:which-file")
		} else if cmd.Log {
			which = 1
		}
		name := []string{"food.yaml", "log.yaml"}[which]
		target := bigFiles[which]
		k := bigOffsets[which][x.Choose(len(bigOffsets[which]), "fault:offset")]
		chunk := []int{0, 1000}[x.Choose(2, "env:chunk")]
		fl := map[string]string{"food.yaml": bigFiles[0], "log.yaml": bigFiles[1]}
		args := append([]string{"--no-color"}, cmd.Args...)
		if cmd.Args[0] == "lint" {
			args = []string{"--no-color", "lint", name}
		}
		fr := &faultReader{data: []byte(target), FailAt: k, Chunk: chunk}
		r := runCU(cuCase{Args: args, Files: fl, Readers: map[string]*faultReader{name: fr}})
		x.Obs(fmt.Sprint(r.Failed, firstLine(r.Err)))
		cname := strings.Join(cmd.Args, " ")
		x.Case(fmt.Sprint(ci, which, k, chunk), fr.Failed)
		if r.Panic != "" {
			x.Violate("C10|"+cname+"|panic", r.String(), nil)
			return
		}
		if !fr.Failed && fr.pos == 0 {
			x.Case("skip: the command does not read "+name, false)
			return
		}
		if !r.Failed {
			x.Violate("C10|"+cname+"|success-although-the-file-cannot-be-read-completely|large-file", fmt.Sprintf("`%s`: %s (%d bytes) cannot be read past byte %d (chunk %d; the command read %d bytes) and the command reports success", strings.Join(args, " "), name, len(target), k, chunk, fr.pos),
				map[string]interface{}{"cmd": cname, "args": args, "file": name, "fail_at": k, "bytes_read": fr.pos, "file_bytes": len(target)})
		}
	})
	// ---- real files: a directory as file, lines at and beyond the line buffer
	// kinds of directory: an ordinary one, one whose reported size is 0 (procfs, sysfs: "read everything the size says"
	// reads nothing), a symbolic link to a directory
	dirNames := []string{"adir"}
	for _, d := range []string{"/proc/self", "/sys/kernel"} {
		if st, err := os.Stat(d); err == nil && st.IsDir() && st.Size() == 0 {
			dirNames = append(dirNames, d)
			break
		}
	}
	dirNames = append(dirNames, "alink")
	// ... and directories that hold files with the default names: the working directory itself, a data directory
	dirNames = append(dirNames, ".", "data", "data/")
	w.Explore("directory-and-long-lines", ExploreOpts{ShardDepth: 2}, func(x *Exec) {
		ci := x.Choose(len(c10Cmds)+1, "input:command") // last: stats
		kind := x.Choose(6, "fault:kind")               // 0: directory as log, 1: directory as book, 2..5: long line lengths
		adir := "adir"
		if kind < 2 {
			adir = dirNames[x.Choose(len(dirNames), "fault:kind-of-directory")]
		}
		var cmd c10Cmd
		if ci == len(c10Cmds) {
			cmd = c10Cmd{[]string{"stats"}, true, true}
		} else {
			cmd = c10Cmds[ci]
		}
		cname := strings.Join(cmd.Args, " ")
		os.MkdirAll(filepath.Join(theApp.dir, "adir"), 0o755)
		os.Symlink("adir", filepath.Join(theApp.dir, "alink"))
		os.MkdirAll(filepath.Join(theApp.dir, "data"), 0o755)
		ioutil.WriteFile(filepath.Join(theApp.dir, "data", "food.yaml"), []byte(files[1]), 0o644)
		ioutil.WriteFile(filepath.Join(theApp.dir, "data", "log.yaml"), []byte(logs[1]), 0o644)
		fl := map[string]string{"food.yaml": files[1], "log.yaml": logs[1]}
		args := []string{"--no-color"}
		switch kind {
		case 0:
			if !cmd.Log {
				x.Case("skip", false)
				return
			}
			if cmd.Args[0] == "lint" {
				cmd.Args = append(append([]string{}, cmd.Args[:len(cmd.Args)-1]...), adir)
			} else {
				args = append(args, "-l", adir)
			}
		case 1:
			if !cmd.Db {
				x.Case("skip", false)
				return
			}
			if cmd.Args[0] == "lint" {
				cmd.Args = append(append([]string{}, cmd.Args[:len(cmd.Args)-1]...), adir)
			} else {
				args = append(args, "-d", adir)
			}
		default:
			n := []int{65535, 65536, 65537, 70000}[kind-2]
			pos := x.Choose(3, "fault:long-line-position")
			role := 1
			if cmd.Db && (!cmd.Log || x.Choose(2, "fault:which-file") == 0) {
				role = 0
			}
			long := "  " + strings.Repeat("n", n-6) + ": 1" // the whole line is n bytes without terminator
			if len(long) != n-1 {
				long += "0"
			}
			lines := []string{"2021/01/24:", "  r1: 1", "2021/01/25:", "  u: 2"}
			if role == 0 {
				lines = []string{"r1:", "  cal: 2", "r2:", "  fat: 1"}
			}
			ins := []int{1, 2, 4}[pos]
			var out []string
			out = append(out, lines[:ins]...)
			if ins == 2 {
				out = append(out[:1], append([]string{long}, lines[1:]...)...)
			} else {
				out = append(out, long)
				out = append(out, lines[ins:]...)
			}
			text := strings.Join(out, "\n") + "\n"
			if role == 0 {
				fl["food.yaml"] = text
			} else {
				fl["log.yaml"] = text
			}
		}
		c := appCase{Args: append(args, cmd.Args...), Files: fl}
		r := runApp(c)
		x.w.binMustAgree(x, c, r, "C10|"+strings.Join(cmd.Args, " "))
		x.Obs(r.Key())
		x.Case(fmt.Sprint(ci, kind, c.Args), true)
		kn := []string{"directory-as-log", "directory-as-book", "line-65535", "line-65536", "line-65537", "line-70000"}[kind]
		if r.Panic != "" {
			x.Violate("C10|"+cname+"|"+kn+"|panic", r.String(), nil)
			return
		}
		if kind < 2 {
			if !r.Failed {
				x.Violate("C10|"+cname+"|"+kn+"|accepted", fmt.Sprintf("`%s %s` (adir is a directory) reports success:\n%s", strings.Join(args, " "), cname, r.Stdout), map[string]interface{}{"args": c.Args})
			}
			return
		}
		if !r.Failed {
			// success => every heading and entry has been taken into account
			nlong := strings.Repeat("n", 100)
			ok := true
			switch cname {
			case "csv log", "print", "reg", "bal", "report quantity", "report unresolved", "csv database", "report totals":
				ok = strings.Contains(r.Stdout, nlong) || (cname == "report unresolved" || cname == "report totals" || cname == "reg" || cname == "bal") && fl["food.yaml"] != files[1] && false
				if fl["food.yaml"] != files[1] && cname != "csv database" {
					ok = true // long line is in the book: visible only in book exports
				}
			default:
				ok = true
			}
			wantTail := "u" // the entries after the long line must also be there for log readers
			_ = wantTail
			if !ok {
				x.Violate("C10|"+cname+"|"+kn+"|success-without-the-long-line", fmt.Sprintf("`%s` reports success but its report does not contain the entry on the %s-byte line:\n%s", cname, kn[5:], tail(r.Stdout, 600)), map[string]interface{}{"args": c.Args, "line_bytes": kn[5:]})
				return
			}
			// differential: the same file with a short name instead of the long one must give the same report modulo the name
			short := map[string]string{}
			for k, v := range fl {
				short[k] = strings.Replace(v, strings.Repeat("n", len(v)), "", 0)
				idx := strings.Index(v, "  nnnn")
				if idx >= 0 {
					end := idx + strings.Index(v[idx:], ":")
					short[k] = v[:idx] + "  nn" + v[end:]
				}
			}
			rs := runApp(appCase{Args: c.Args, Files: short})
			norm := func(s string) string {
				return strings.Join(strings.Fields(strings.ReplaceAll(s, strings.Repeat("n", 10), "")), " ")
			}
			if len(splitLines(rs.Stdout)) != len(splitLines(r.Stdout)) {
				x.Violate("C10|"+cname+"|"+kn+"|success-on-a-prefix", fmt.Sprintf("`%s` reports success on a file with a %s-byte line but prints %d lines; with a short name in that line it prints %d lines:\n%s\nvs\n%s", cname, kn[5:], len(splitLines(r.Stdout)), len(splitLines(rs.Stdout)), tail(norm(r.Stdout), 400), tail(rs.Stdout, 400)), map[string]interface{}{"args": c.Args, "line_bytes": kn[5:]})
			}
		}
	})
}

func tail(s string, n int) string {
	if len(s) <= n {
		return s
	}
	return s[:n/2] + " ... " + s[len(s)-n/2:]
}
