package main

// Cooperative scheduler over a model of Go channels. Threads are real goroutines
// that run one at a time and park at every channel operation; a state is "every
// live thread parked at an operation or finished"; a transition is one enabled
// communication, chosen by the explorer (class "sched"). All transition sequences
// are enumerated by the explorer's DFS; "no enabled transition" with an unfinished
// thread is a deadlock.

import (
	"fmt"
	"reflect"
	"runtime"
	"sort"
	"time"

	"github.com/aquilax/hranoprovod-cli/v3/verifshim"
)

type mchan struct {
	id     int
	name   string
	cap    int
	buf    []interface{}
	closed bool
}

type selCase struct {
	Send bool
	Ch   interface{} // real channel value (identity + capacity)
	Val  interface{}
}

type pendingOp struct {
	cases      []selCase
	mch        []*mchan
	hasDefault bool
	// blocking operation of a sync primitive (wg-wait, lock, rlock) on obj instead of a channel operation
	sync string
	obj  interface{}
	// result
	chosen int
	val    interface{}
	ok     bool
	kill   bool
}

type mthread struct {
	id      int
	name    string
	resume  chan struct{}
	pending *pendingOp
	done    bool
	started bool
	// abandoned: registered (a go statement was executed) but never started when the run ended (horizon, stall, a panic
	// of the explorer): its goroutine is let go instead of waiting for ever - with everything its closure holds
	abandoned bool
	// arrived: the thread's pending operation is visible to the others. Arrival is a transition of
	// its own only while some pending operation is a select with a default case (a non-blocking
	// operation observes whether its partner is already waiting); otherwise arrival order is
	// irrelevant and every parked thread counts as arrived.
	arrived bool
}

type transition struct {
	kind         string // rendezvous | put | get | closed-recv | default
	sender, recv *mthread
	sCase, rCase int
	t            *mthread
	c            int
	label        string
}

type muState struct {
	writer  bool
	readers int
}

type Sched struct {
	wg          map[interface{}]int
	mu          map[interface{}]*muState
	x           *Exec
	threads     []*mthread
	chans       map[uintptr]*mchan
	names       map[uintptr]string
	yield       chan struct{}
	cur         *mthread
	Trace       []string
	Deadlock    bool
	Stalled     bool        // see schedStall
	Class       string      // class of the scheduler's choice points (default "sched")
	last        *mthread    // the thread that ran last
	Panics      []string    // panics of modelled threads
	foreign     interface{} // an explorer sentinel that surfaced inside a thread
	Steps       int
	MaxSteps    int
	Horizon     bool
	parkedAtEnd []string
}

func NewSched(x *Exec) *Sched {
	return &Sched{x: x, chans: map[uintptr]*mchan{}, names: map[uintptr]string{}, yield: make(chan struct{}), MaxSteps: 10000, wg: map[interface{}]int{}, mu: map[interface{}]*muState{}}
}

func (s *Sched) NameChan(ch interface{}, name string) {
	s.names[reflect.ValueOf(ch).Pointer()] = name
}

func (s *Sched) chanOf(ch interface{}) *mchan {
	rv := reflect.ValueOf(ch)
	if rv.Kind() != reflect.Chan {
		hfail("sched: not a channel: %T", ch)
	}
	p := rv.Pointer()
	if m, ok := s.chans[p]; ok {
		return m
	}
	m := &mchan{id: len(s.chans), cap: rv.Cap(), name: s.names[p]}
	if m.name == "" {
		m.name = fmt.Sprintf("ch%d", m.id)
	}
	s.chans[p] = m
	return m
}

// Go registers a thread; it starts running when the scheduler first picks it.
func (s *Sched) Go(name string, fn func()) {
	t := &mthread{id: len(s.threads), name: name, resume: make(chan struct{})}
	s.threads = append(s.threads, t)
	go func() {
		<-t.resume
		if t.abandoned {
			return // the run ended before this thread was ever started
		}
		defer func() {
			// a panic of the code under test inside a thread (e.g. close of a closed channel) ends that thread; it is
			// recorded, the other threads go on (in a real program it would end the process)
			if r := recover(); r != nil {
				switch r.(type) {
				case abortNotMine, harnessError, oracleFailure:
					s.foreign = r // re-thrown by Run on the explorer's goroutine
				default:
					s.Panics = append(s.Panics, fmt.Sprintf("thread %s: %v", name, r))
				}
			}
			t.done = true
			t.pending = nil
			s.yield <- struct{}{}
		}()
		fn()
	}()
}

// park is called by the running thread at a channel operation.
func (s *Sched) park(op *pendingOp) {
	t := s.cur
	for _, c := range op.cases {
		op.mch = append(op.mch, s.chanOf(c.Ch))
	}
	t.pending = op
	s.yield <- struct{}{}
	<-t.resume
	if op.kill {
		runtime.Goexit()
	}
}

func (s *Sched) Send(ch interface{}, v interface{}) {
	op := &pendingOp{cases: []selCase{{Send: true, Ch: ch, Val: v}}}
	s.park(op)
	if op.ok == false && op.val == "send-on-closed" {
		panic("send on closed channel")
	}
}

func (s *Sched) Recv(ch interface{}) (interface{}, bool) {
	op := &pendingOp{cases: []selCase{{Ch: ch}}}
	s.park(op)
	return op.val, op.ok
}

// Select blocks until one case can proceed (no default).
func (s *Sched) Select(cases ...selCase) (int, interface{}, bool) {
	op := &pendingOp{cases: cases}
	s.park(op)
	return op.chosen, op.val, op.ok
}

func (s *Sched) enabled() []transition {
	var out []transition
	var parked []*mthread
	for _, t := range s.threads {
		if !t.done && t.pending != nil && t.arrived {
			parked = append(parked, t)
		}
	}
	for _, t := range s.threads {
		if !t.done && t.pending != nil && !t.arrived {
			out = append(out, transition{kind: "arrive", t: t, label: t.name + ": reaches its next channel operation"})
		}
	}
	for _, t := range parked {
		if t.pending.sync != "" {
			ok := false
			switch t.pending.sync {
			case "yield":
				ok = true // an atomic operation: always possible; the point is that another thread may go first
			case "wg-wait":
				ok = s.wg[t.pending.obj] <= 0
			case "lock":
				m := s.muOf(t.pending.obj)
				ok = !m.writer && m.readers == 0
			case "rlock":
				ok = !s.muOf(t.pending.obj).writer
			}
			if ok {
				out = append(out, transition{kind: "sync", t: t, label: fmt.Sprintf("%s: %s proceeds", t.name, t.pending.sync)})
			}
			continue
		}
		any := false
		for ci, c := range t.pending.cases {
			m := t.pending.mch[ci]
			if c.Send {
				if m.closed {
					out = append(out, transition{kind: "send-closed", t: t, c: ci, label: fmt.Sprintf("%s: send on closed %s", t.name, m.name)})
					any = true
					continue
				}
				if m.cap > 0 && len(m.buf) < m.cap {
					out = append(out, transition{kind: "put", t: t, c: ci, label: fmt.Sprintf("%s: %s <- (buffered)", t.name, m.name)})
					any = true
				}
				if m.cap == 0 || len(m.buf) == 0 {
					// rendezvous with a parked receiver (also legal on an empty buffered channel)
					for _, r := range parked {
						if r == t {
							continue
						}
						for ri, rc := range r.pending.cases {
							if !rc.Send && r.pending.mch[ri] == m {
								if m.cap > 0 {
									continue // with a buffer the value goes through the buffer: covered by put + get
								}
								out = append(out, transition{kind: "rendezvous", sender: t, sCase: ci, recv: r, rCase: ri, label: fmt.Sprintf("%s -> %s on %s", t.name, r.name, m.name)})
								any = true
							}
						}
					}
				}
			} else {
				if len(m.buf) > 0 {
					out = append(out, transition{kind: "get", t: t, c: ci, label: fmt.Sprintf("%s: <-%s (buffered)", t.name, m.name)})
					any = true
				} else if m.closed {
					out = append(out, transition{kind: "closed-recv", t: t, c: ci, label: fmt.Sprintf("%s: <-%s (closed)", t.name, m.name)})
					any = true
				} else if m.cap == 0 {
					for _, sd := range parked {
						if sd == t {
							continue
						}
						for si, sc := range sd.pending.cases {
							if sc.Send && sd.pending.mch[si] == m {
								any = true // the rendezvous is listed from the sender's side
							}
						}
					}
				}
			}
		}
		if t.pending.hasDefault && !any {
			out = append(out, transition{kind: "default", t: t, label: t.name + ": default"})
		}
	}
	sort.SliceStable(out, func(i, j int) bool { return out[i].label < out[j].label })
	return out
}

// schedStall: a thread was resumed and neither parked nor finished within the grace period - it blocks on something the
// scheduler does not intercept (sync.Cond, a timer, a file lock ...). The scheduled execution is abandoned (Stalled);
// callers skip the case instead of judging it.
type schedStall struct{}

func (s *Sched) involves(tr transition, t *mthread) bool {
	return tr.t == t || tr.sender == t || tr.recv == t
}

func (s *Sched) runThread(t *mthread) {
	s.last = t
	s.cur = t
	t.pending = nil
	t.arrived = false
	t.resume <- struct{}{}
	// (a timer that is stopped as soon as the thread yields: time.After would keep one alive per step for the whole
	// grace period - millions of them in a long exploration)
	valve := time.NewTimer(120 * time.Second)
	select {
	case <-s.yield:
		valve.Stop()
	case <-valve.C:
		s.Stalled = true
		panic(schedStall{})
	}
	s.cur = nil
}

// Run executes the registered threads to completion, deadlock or horizon.
// runningSched: the scheduler whose Run is in progress.
var runningSched *Sched

// slowSinkPoint is called by the harness's output sink before it takes the bytes of a Write: a write to a terminal, a
// pipe or a disk may take long, and the other goroutines of the command run meanwhile. A scheduling point when the
// command has more than one live thread (nothing otherwise).
func slowSinkPoint() {
	s := runningSched
	if s == nil || s.cur == nil {
		return
	}
	live := 0
	for _, t := range s.threads {
		if !t.done {
			live++
		}
	}
	if live > 1 {
		s.park(&pendingOp{sync: "yield"})
	}
}

func (s *Sched) Run() {
	runningSched = s
	verifshim.SinkHook = slowSinkPoint
	defer func() { runningSched, verifshim.SinkHook = nil, nil }()
	verifshim.SendHook = func(ch interface{}, v interface{}) { s.Send(ch, v) }
	verifshim.RecvHook = func(ch interface{}) (interface{}, bool) { return s.Recv(ch) }
	verifshim.SelectHook = func(hasDefault bool, cases []verifshim.SelCase) verifshim.SelResult {
		op := &pendingOp{hasDefault: hasDefault}
		for _, c := range cases {
			op.cases = append(op.cases, selCase{Send: c.Send, Ch: c.Ch, Val: c.Val})
		}
		s.park(op)
		return verifshim.SelResult{Index: op.chosen, Value: op.val, Ok: op.ok}
	}
	verifshim.SyncHook = func(obj interface{}, op string, n int) bool {
		if s.cur == nil {
			return false // not one of the scheduler's threads
		}
		switch op {
		case "wg-add":
			s.wg[obj] += n
			if s.wg[obj] < 0 {
				panic("sync: negative WaitGroup counter")
			}
		case "unlock":
			m := s.muOf(obj)
			if !m.writer {
				panic("sync: unlock of unlocked mutex")
			}
			m.writer = false
		case "runlock":
			m := s.muOf(obj)
			if m.readers <= 0 {
				panic("sync: RUnlock of unlocked RWMutex")
			}
			m.readers--
		case "wg-wait", "lock", "rlock":
			s.park(&pendingOp{sync: op, obj: obj})
		default:
			return false
		}
		return true
	}
	verifshim.YieldHook = func() {
		if s.cur != nil {
			s.park(&pendingOp{sync: "yield"})
		}
	}
	verifshim.CloseHook = func(ch interface{}) {
		m := s.chanOf(ch)
		if m.closed {
			panic("close of closed channel")
		}
		m.closed = true
		s.Trace = append(s.Trace, s.cur.name+": close("+m.name+")")
	}
	verifshim.GoHook = func(fn func()) {
		s.Go(fmt.Sprintf("goroutine-%d", len(s.threads)), fn) // started by the scheduler loop
	}
	defer func() {
		verifshim.SendHook, verifshim.RecvHook, verifshim.SelectHook, verifshim.CloseHook, verifshim.GoHook = nil, nil, nil, nil, nil
		verifshim.SyncHook = nil
		verifshim.YieldHook = nil
		if r := recover(); r != nil {
			if _, stall := r.(schedStall); stall {
				s.yield = make(chan struct{}) // the abandoned threads keep their old channel: they can never disturb a later run
				return
			}
			panic(r)
		}
	}()
	// start: run every thread up to its first operation, in id order (initial local steps commute)
	for i := 0; i < len(s.threads); i++ {
		t := s.threads[i]
		t.started = true
		s.runThread(t)
	}
	for {
		for i := 0; i < len(s.threads); i++ { // threads created by `go` statements since the last step
			if !s.threads[i].started {
				s.threads[i].started = true
				s.runThread(s.threads[i])
			}
		}
		live := 0
		for _, t := range s.threads {
			if !t.done {
				live++
			}
		}
		if live == 0 {
			break
		}
		anyDefault := false
		for _, t := range s.threads {
			if !t.done && t.pending != nil && t.pending.hasDefault {
				anyDefault = true
			}
		}
		if !anyDefault {
			for _, t := range s.threads {
				if !t.done && t.pending != nil {
					t.arrived = true
				}
			}
		}
		if s.foreign != nil {
			break
		}
		en := s.enabled()
		if len(en) == 0 {
			s.Deadlock = true
			break
		}
		if s.Steps >= s.MaxSteps {
			s.Horizon = true
			break
		}
		s.Steps++
		cls := s.Class
		if cls == "" {
			cls = "sched"
		}
		// canonical order: the transitions of the thread that ran last come first (choice 0 lets it go on: a departure
		// from the default is a context switch, and the thread switched to then keeps running - a preemption bound in
		// the sense of CHESS), the others follow in label order
		if s.last != nil {
			sort.SliceStable(en, func(i, j int) bool { return s.involves(en[i], s.last) && !s.involves(en[j], s.last) })
		}
		// (a forced move is not a choice point: a sequential command leaves the same trace with or without a scheduler)
		tr := en[0]
		if len(en) > 1 {
			tr = en[s.x.Choose(len(en), cls)]
		}
		s.Trace = append(s.Trace, tr.label)
		switch tr.kind {
		case "arrive":
			tr.t.arrived = true
		case "sync":
			switch tr.t.pending.sync {
			case "lock":
				s.muOf(tr.t.pending.obj).writer = true
			case "rlock":
				s.muOf(tr.t.pending.obj).readers++
			}
			s.runThread(tr.t)
		case "rendezvous":
			so, ro := tr.sender.pending, tr.recv.pending
			so.chosen, so.ok = tr.sCase, true
			ro.chosen, ro.val, ro.ok = tr.rCase, so.cases[tr.sCase].Val, true
			s.runThread(tr.sender)
			s.runThread(tr.recv)
		case "put":
			op := tr.t.pending
			m := op.mch[tr.c]
			m.buf = append(m.buf, op.cases[tr.c].Val)
			op.chosen, op.ok = tr.c, true
			s.runThread(tr.t)
		case "get":
			op := tr.t.pending
			m := op.mch[tr.c]
			op.chosen, op.val, op.ok = tr.c, m.buf[0], true
			m.buf = m.buf[1:]
			s.runThread(tr.t)
		case "closed-recv":
			op := tr.t.pending
			op.chosen, op.val, op.ok = tr.c, nil, false
			s.runThread(tr.t)
		case "send-closed":
			op := tr.t.pending
			op.chosen, op.val, op.ok = tr.c, "send-on-closed", false
			s.runThread(tr.t)
		case "default":
			op := tr.t.pending
			op.chosen = -1
			s.runThread(tr.t)
		}
	}
	for _, t := range s.threads {
		if !t.done && t.pending != nil {
			w := t.pending.sync
			for i, c := range t.pending.cases {
				if i > 0 {
					w += " | "
				}
				if c.Send {
					w += t.pending.mch[i].name + " <- v"
				} else {
					w += "<-" + t.pending.mch[i].name
				}
			}
			s.parkedAtEnd = append(s.parkedAtEnd, t.name+" blocked at "+w)
		}
	}
	// release the threads that are still parked
	for _, t := range s.threads {
		if !t.done && t.pending != nil {
			t.pending.kill = true
			s.cur = t
			t.resume <- struct{}{}
			<-s.yield
		}
	}
	for _, t := range s.threads {
		if !t.done && !t.started {
			t.abandoned = true
			t.done = true
			t.resume <- struct{}{}
		}
	}
	s.cur = nil
	if s.foreign != nil {
		// a sentinel of the explorer (abort of a foreign shard, harness error, oracle failure) surfaced inside a thread
		panic(s.foreign)
	}
}

// Parked lists the unfinished threads and what they wait for (after Run).
func (s *Sched) ParkedAtEnd() []string { return s.parkedAtEnd }

func (s *Sched) muOf(obj interface{}) *muState {
	m := s.mu[obj]
	if m == nil {
		m = &muState{}
		s.mu[obj] = m
	}
	return m
}
