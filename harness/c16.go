package main

import (
	"fmt"
	"strings"
	"time"

	"github.com/urfave/cli/v2"
)

func init() { propChecks["C16"] = checkC16 }

// levels: 0 flag, 1 env, 2 config file, 3 default
// three sets of layouts (flag, variable, file, default): the fields may be spelt in every way Go's layouts allow -
// two-digit year, month name, unpadded numbers, no separators
var c16FmtSets = map[int][]string{
	3: {"2006-01-02", "02.01.2006", "2006/02/01", "2006/01/02"},
	5: {"06-01-02", "2.1.2006", "Jan 2 2006", "2006/01/02"},
	8: {"02-Jan-2006", "1/2/06", "20060102", "2006/01/02"},
}
var c16Depth = []int{2, 4, 6, 10}
var c16Db = []string{"book_flag.yaml", "book_env.yaml", "book_cfg.yaml", "food.yaml"}
var c16Log = []string{"log_flag.yaml", "log_env.yaml", "log_cfg.yaml", "log.yaml"}
var c16Today = []time.Time{time.Date(2001, 2, 3, 0, 0, 0, 0, time.UTC), {}, time.Date(2001, 4, 5, 0, 0, 0, 0, time.UTC), {}}

func chainBook(marker int, L int) string {
	var sb strings.Builder
	sb.WriteString(fmt.Sprintf("r:\n  cal: %d\n", marker))
	for i := 1; i <= L; i++ {
		next := fmt.Sprintf("c%d", i+1)
		if i == L {
			next = "leaf"
		}
		sb.WriteString(fmt.Sprintf("c%d:\n  %s: 1\n", i, next))
	}
	return sb.String()
}

func checkC16(w *Worker) {
	w.appInit()
	srcBudget := 3
	if w.Tier == "thorough" {
		srcBudget = 14
	}
	cfgDir := theApp.dir
	defaultCfg := cfgDir + "/home/.hranoprovod/config"
	patchDefault := func(a *cli.App) {
		for _, f := range a.Flags {
			if sf, ok := f.(*cli.StringFlag); ok && sf.Name == "config" {
				if !strings.HasSuffix(sf.Value, "/.hranoprovod/config") {
					ofail("default-config-path", "the default configuration path is %q, documented as $HOME/.hranoprovod/config", sf.Value)
				}
				sf.Value = defaultCfg
			}
		}
	}
	names := []string{"database", "logfile", "date-format", "maxdepth", "today"}
	// cell: one combination of sources. flagVal/envVal say which VALUE a set flag / variable carries: its own
	// distinguishable one (level 0 / 1) or the documented default (level 3) - a value that happens to equal the
	// default is still a value that was given, and outranks the configuration file
	cell := func(x *Exec, cfgLoc int, L int, flagSet, envSet, cfgSet [5]bool, flagVal, envVal [5]int) {
		level := func(i int) int {
			switch {
			case flagSet[i]:
				return flagVal[i]
			case envSet[i]:
				return envVal[i]
			case cfgSet[i]:
				return 2
			}
			return 3
		}
		c16Fmt := c16FmtSets[L]
		effFmt := c16Fmt[level(2)]
		effDepth := c16Depth[level(3)]
		effDb := c16Db[level(0)]
		effLog := c16Log[level(1)]
		effToday := c16Today[level(4)] // zero: wall clock
		files := map[string]string{}
		for i, p := range c16Db {
			files[p] = chainBook(i+1, L)
		}
		realNow := time.Now().UTC()
		realToday := time.Date(realNow.Year(), realNow.Month(), realNow.Day(), 0, 0, 0, 0, time.UTC)
		for i, p := range c16Log {
			var sb strings.Builder
			// the last heading is the real current date: it is what `-b yesterday -e today` selects when
			// neither the flag nor the configuration file sets the current date (documented default: now)
			for di, d := range []time.Time{c16Today[0], c16Today[2], time.Date(2001, 6, 7, 0, 0, 0, 0, time.UTC), realToday} {
				sb.WriteString(fmt.Sprintf("%s:\n  r: %d\n  m%d: 1\n", d.Format(effFmt), (i+1)*10+di, di))
			}
			files[p] = sb.String()
		}
		var cfg strings.Builder
		cfg.WriteString("[Global]\n")
		if cfgSet[0] {
			cfg.WriteString("DbFileName=" + c16Db[2] + "\n")
		}
		if cfgSet[1] {
			cfg.WriteString("LogFileName=" + c16Log[2] + "\n")
		}
		if cfgSet[2] {
			cfg.WriteString("DateFormat=" + c16Fmt[2] + "\n")
		}
		if cfgSet[4] {
			cfg.WriteString("Now=" + c16Today[2].Format(time.RFC3339) + "\n")
		}
		if cfgSet[3] {
			cfg.WriteString(fmt.Sprintf("[Resolver]\nMaxDepth=%d\n", c16Depth[2]))
		}
		env := map[string]string{}
		var global []string
		switch cfgLoc {
		case 1:
			files["home/.hranoprovod/config"] = cfg.String()
		case 2:
			files["my.cfg"] = cfg.String()
			global = append(global, "--config", "my.cfg")
		case 3:
			files["env.cfg"] = cfg.String()
			env["HR_CONFIG"] = "env.cfg"
		}
		if flagSet[0] {
			global = append(global, "-d", c16Db[flagVal[0]])
		}
		if flagSet[1] {
			global = append(global, "-l", c16Log[flagVal[1]])
		}
		if flagSet[2] {
			global = append(global, "--date-format", c16Fmt[flagVal[2]])
		}
		if flagSet[3] {
			global = append(global, "--maxdepth", fmt.Sprint(c16Depth[flagVal[3]]))
		}
		if flagSet[4] {
			global = append(global, "--today", c16Today[0].Format(effFmt))
		}
		if envSet[0] {
			env["HR_DATABASE"] = c16Db[envVal[0]]
		}
		if envSet[1] {
			env["HR_LOGFILE"] = c16Log[envVal[1]]
		}
		if envSet[2] {
			env["HR_DATE_FORMAT"] = c16Fmt[envVal[2]]
		}
		if envSet[3] {
			env["HR_MAXDEPTH"] = fmt.Sprint(c16Depth[envVal[3]])
		}
		nsrc := 0
		for i := 0; i < 5; i++ {
			nsrc += btoi(flagSet[i]) + btoi(envSet[i]) + btoi(cfgSet[i])
		}
		ref := []string{"-d", effDb, "-l", effLog, "--date-format", effFmt, "--maxdepth", fmt.Sprint(effDepth)}
		if !effToday.IsZero() {
			ref = append(ref, "--today", effToday.Format(effFmt))
		}
		x.Case(fmt.Sprint(cfgLoc, L, flagSet, envSet, cfgSet, flagVal, envVal), nsrc >= 2)
		// every execution observes the settings through csv log (ISO dates reveal the layout), the two registers
		// restricted by today, and one further command of a rotating list (every command must see the same settings)
		others := shapeArgs(func(s cmdShape) bool { return !s.Lint && s.Args[0] != "summary" })
		others = append(others, []string{"summary", "today"})
		cmds := [][]string{{"--no-color", "csv", "log"}, {"--no-color", "-b", "today", "-e", "today", "reg"}, {"--no-color", "-b", "yesterday", "-e", "today", "reg"}}
		if nsrc <= 2 {
			// cells with at most two sources set: every further command
			for _, o := range others {
				cmds = append(cmds, append([]string{"--no-color"}, o...))
			}
		} else {
			// larger cells: one further command, rotating with the cell
			cmds = append(cmds, append([]string{"--no-color"}, others[(nsrc+cfgLoc+L)%len(others)]...))
		}
		for _, cmd := range cmds {
			act := appCase{Args: append(append([]string{}, global...), cmd...), Files: files, Env: env, Mod: patchDefault}
			exp := appCase{Args: append(append([]string{}, ref...), cmd...), Files: files, Mod: patchDefault}
			if cfgLoc == 1 {
				// the reference must not be influenced by the default-path file
				exp.Args = append([]string{"--config", "empty.cfg"}, exp.Args...)
				files["empty.cfg"] = ""
			}
			ra := runApp(act)
			re := runApp(exp)
			if n2 := time.Now().UTC(); n2.Day() != realNow.Day() {
				x.Case("skip: the date changed during the case", false)
				return
			}
			x.Obs(ra.Key())
			if ra.Failed && !strings.Contains(ra.Err, depthErrText) {
				// every value in this product is a legal one: the only failure a cell may end in is the depth limit it sets
				x.Violate("C16|legal-settings-rejected", fmt.Sprintf("sources: flags %v env %v config entries %v, date format %q, depth %d, chain length %d\n`%s`\nfails: %s", flagSet, envSet, cfgSet, effFmt, effDepth, L, act.shell(), ra.String()),
					map[string]interface{}{"cmd": act.shell(), "observed": ra.String()})
				return
			}
			x.Sample(map[string]interface{}{"cmd": act.shell(), "equivalent_flags_only": exp.shell(), "stdout": ra.Stdout, "error": ra.Err})
			if ra.Key() != re.Key() {
				// which setting is off? (diagnosis for the signature only)
				what := "settings"
				for i, probe := range []string{effDb, effLog} {
					_ = i
					_ = probe
				}
				loc := []string{"no config file", "default-path config", "--config file", "HR_CONFIG file"}[cfgLoc]
				sig := "C16|precedence|" + loc
				if cfgLoc != 0 && nsrc > 0 && strings.Contains(ra.Err, "not found") {
					sig = "C16|existing-config-file-reported-not-found|" + loc
				}
				x.Violate(sig, fmt.Sprintf("sources: flags %v env %v config entries %v (%s), chain length %d\n`%s`\nprints:\n%s\nbut the same settings given as flags only\n`%s`\nprint:\n%s\n(%s)", flagSet, envSet, cfgSet, loc, L, act.shell(), ra.String(), exp.shell(), re.String(), what),
					map[string]interface{}{"cmd": act.shell(), "reference_cmd": exp.shell(), "observed": ra.String(), "expected": re.String()})
				return
			}
		}
	}
	w.Explore("precedence", ExploreOpts{ShardDepth: 5, Budgets: map[string]int{"src": srcBudget}}, func(x *Exec) {
		cfgLoc := x.Choose(4, "input:config-location") // 0 no file, 1 default path, 2 --config, 3 HR_CONFIG
		L := []int{3, 5, 8}[x.Choose(3, "input:chain-length")]
		var flagSet, envSet, cfgSet [5]bool
		for i := 0; i < 5; i++ {
			flagSet[i] = x.Choose(2, "src:flag-"+names[i]) == 1
			if i < 4 {
				envSet[i] = x.Choose(2, "src:env-"+names[i]) == 1
			}
			if cfgLoc != 0 {
				cfgSet[i] = x.Choose(2, "src:config-"+names[i]) == 1
			}
		}
		cell(x, cfgLoc, L, flagSet, envSet, cfgSet, [5]int{0, 0, 0, 0, 0}, [5]int{1, 1, 1, 1, 1})
	})
	// the value that is used is the value that was given - also when it is a file name that looks like something else (a
	// leading tilde that is not "~/", a dollar sign, a percent verb, blanks, letters of two bytes, dots): whichever source
	// names the book, the log or the configuration file, that very file is read
	oddNames := []string{"~today.yaml", "~old/log.yaml", "$HOME.yaml", "%s %d.yaml", "two words.yaml", "données.yaml", "./sub/../plain.yaml", "-dash.yaml", "~"}
	w.Explore("file-names-that-look-like-something-else", ExploreOpts{ShardDepth: 3}, func(x *Exec) {
		name := oddNames[x.Choose(len(oddNames), "input:file-name")]
		what := x.Choose(3, "input:setting") // book, log, configuration file
		src := x.Choose(3, "input:source")   // flag, variable, configuration file entry
		if what == 2 && src == 2 {
			x.Case("skip: a configuration file does not name a configuration file", false)
			return
		}
		if name == "-dash.yaml" && src == 0 {
			name = "./-dash.yaml" // (a flag value must not look like a flag)
		}
		book, log := "r:\n  x: 7\n", "2001/02/03:\n  r: 3\n  marker: 1\n"
		files := map[string]string{"food.yaml": "r:\n  x: 1\n", "log.yaml": "2001/02/03:\n  r: 1\n", "sub/keep": ""}
		c := appCase{Args: []string{"--no-color"}, Files: files, Mod: patchDefault, Env: map[string]string{}}
		var wantOut string
		switch what {
		case 0:
			files[name] = book
			wantOut = "21.00" // 3 x 7 under the named book, 3 x 1 = 3.00 under the default one
			files["log.yaml"] = log
		case 1:
			files[name] = log
			wantOut = "marker"
		default:
			files[name] = "[Global]\nLogFileName=other.yaml\n"
			files["other.yaml"] = log
			wantOut = "marker"
		}
		flag, env, key := [][3]string{{"-d", "HR_DATABASE", "DbFileName"}, {"-l", "HR_LOGFILE", "LogFileName"}, {"--config", "HR_CONFIG", ""}}[what][0], "", ""
		env, key = [][3]string{{"-d", "HR_DATABASE", "DbFileName"}, {"-l", "HR_LOGFILE", "LogFileName"}, {"--config", "HR_CONFIG", ""}}[what][1], [][3]string{{"-d", "HR_DATABASE", "DbFileName"}, {"-l", "HR_LOGFILE", "LogFileName"}, {"--config", "HR_CONFIG", ""}}[what][2]
		switch src {
		case 0:
			c.Args = append(c.Args, flag, name)
		case 1:
			c.Env[env] = name
		default:
			files["names.cfg"] = "[Global]\n" + key + "=" + name + "\n"
			c.Args = append(c.Args, "--config", "names.cfg")
		}
		c.Args = append(c.Args, "reg")
		r := runApp(c)
		x.Obs(r.Key())
		x.Case(fmt.Sprint(name, what, src), true)
		if r.Failed || r.Panic != "" || !strings.Contains(r.Stdout, wantOut) {
			x.Violate("C16|file-name-not-used-as-given|"+[]string{"book", "log", "configuration file"}[what]+"|"+[]string{"flag", "variable", "configuration file entry"}[src],
				fmt.Sprintf("the file %q exists and is named through the %s\n`%s`\ndoes not read it (expected %q in the register): %s", name, []string{"flag", "variable", "configuration file"}[src], c.shell(), wantOut, r.String()),
				map[string]interface{}{"cmd": c.shell(), "observed": r.String()})
		}
	})
	// a flag or variable whose value equals the documented default, against a configuration file that says otherwise
	w.Explore("given-value-equals-the-default", ExploreOpts{ShardDepth: 4}, func(x *Exec) {
		cfgLoc := 1 + x.Choose(3, "input:config-location")
		i := x.Choose(4, "input:setting")
		fl := x.Choose(3, "input:flag")     // not given, its own value, the default value
		ev := x.Choose(3, "input:variable") // not given, its own value, the default value
		cf := x.Choose(2, "input:config-entry") == 1
		others := x.Choose(2, "input:every-other-source-set") == 1
		if fl != 2 && ev != 2 {
			x.Case("skip: no source carries the default value (covered by the precedence product)", false)
			return
		}
		var flagSet, envSet, cfgSet [5]bool
		flagVal, envVal := [5]int{0, 0, 0, 0, 0}, [5]int{1, 1, 1, 1, 1}
		if others {
			flagSet, envSet, cfgSet = [5]bool{true, true, true, true, true}, [5]bool{true, true, true, true, false}, [5]bool{true, true, true, true, true}
		}
		flagSet[i], envSet[i], cfgSet[i] = fl != 0, ev != 0, cf
		if fl == 2 {
			flagVal[i] = 3
		}
		if ev == 2 {
			envVal[i] = 3
		}
		cell(x, cfgLoc, 5, flagSet, envSet, cfgSet, flagVal, envVal)
	})
	// the current date from the configuration file, written with a time of day and a zone offset: it is still that date
	// (observed through the "Today:" line of stats; keyword periods under such a value are not asserted - the pinned tree
	// compares the instant, and no property says what a time of day in Now means for them)
	w.Explore("config-now-with-time-of-day-and-zone", ExploreOpts{ShardDepth: 2}, func(x *Exec) {
		now := []string{"2001-04-05T00:00:00Z", "2001-04-05T10:00:00-05:00", "2001-04-05T03:00:00+05:00", "2001-04-05T23:30:00Z", "2001-04-05T00:30:00+14:00", "2001-04-05T23:59:59-12:00"}[x.Choose(6, "input:now")]
		loc := x.Choose(3, "input:config-location")
		tz := []int{0, -8 * 3600, 9 * 3600}[x.Choose(3, "env:tz")]
		files := map[string]string{"food.yaml": chainBook(4, 1), "log.yaml": "2001/04/04:\n  r: 1\n2001/04/06:\n  r: 2\n"}
		c := appCase{Args: []string{"--no-color"}, Files: files, Mod: patchDefault, Env: map[string]string{}, TZ: tz}
		cfg := "[Global]\nNow=" + now + "\n"
		switch loc {
		case 0:
			files["home/.hranoprovod/config"] = cfg
		case 1:
			files["n.cfg"] = cfg
			c.Args = append(c.Args, "--config", "n.cfg")
		default:
			files["n.cfg"] = cfg
			c.Env["HR_CONFIG"] = "n.cfg"
		}
		c.Args = append(c.Args, "stats")
		r := runApp(c)
		x.Obs(r.Key())
		x.Case(fmt.Sprint(now, loc, tz), true)
		today := ""
		for _, l := range strings.Split(r.Stdout+"\n"+r.AppOut, "\n") {
			if strings.Contains(l, "Today:") {
				today = strings.TrimSpace(strings.SplitN(l, "Today:", 2)[1])
			}
		}
		if r.Failed || today != "2001/04/05" {
			x.Violate("C16|current-date-from-config-with-zone", fmt.Sprintf("`%s` (process zone offset %ds): the configuration file says Now=%s, stats shows Today: %q\n%s", c.shell(), tz, now, today, r.String()),
				map[string]interface{}{"cmd": c.shell(), "now": now, "observed": r.String()})
		}
	})
	// explicit configuration file that does not exist is an error; one that exists is loaded
	w.Explore("explicit-config-file", ExploreOpts{ShardDepth: 2}, func(x *Exec) {
		how := x.Choose(3, "input:how") // --config / HR_CONFIG / -c
		kinds := []string{"missing", "regular file", "symbolic link to a regular file", "/dev/null", "symbolic link to /dev/null", "named pipe", "dangling symbolic link", "empty regular file", "file in a subdirectory", "regular file without a final newline"}
		kind := x.Choose(len(kinds), "input:kind-of-file")
		files := map[string]string{"food.yaml": chainBook(4, 1), "log.yaml": "2001/02/03:\n  r: 1\n", "other.yaml": "2001/02/03:\n  r: 7\n"}
		cfg := "[Global]\nLogFileName=other.yaml\n"
		name, exists, loaded := "x.cfg", true, true
		switch kind {
		case 0:
			exists = false
		case 1:
			files["x.cfg"] = cfg
		case 2:
			files["real.cfg"] = cfg
			files["x.cfg"] = symlinkPrefix + "real.cfg"
		case 3:
			name, loaded = "/dev/null", false
		case 4:
			files["x.cfg"] = symlinkPrefix + "/dev/null"
			loaded = false
		case 5:
			files["x.cfg"] = fifoPrefix + cfg
		case 6:
			files["x.cfg"] = symlinkPrefix + "nowhere.cfg"
			exists = false
		case 7:
			files["x.cfg"] = ""
			loaded = false
		case 8:
			name = "conf.d/x.cfg"
			files[name] = cfg
		case 9:
			files["x.cfg"] = "[Global]\nLogFileName=other.yaml"
		}
		c := appCase{Args: []string{"--no-color", "csv", "log"}, Files: files, Mod: patchDefault, Env: map[string]string{}}
		// the other settings: left alone, or all five given above the file level (by flag; by variable where there is one) -
		// a file that "cannot contribute a value" is still a file that was named
		given := x.Choose(3, "input:all-five-settings-given")
		switch given {
		case 1:
			c.Args = append([]string{"-d", "food.yaml", "-l", "log.yaml", "--date-format", "2006/01/02", "--maxdepth", "10", "--today", "2001/02/04"}, c.Args...)
		case 2:
			c.Env["HR_DATABASE"], c.Env["HR_LOGFILE"], c.Env["HR_DATE_FORMAT"], c.Env["HR_MAXDEPTH"] = "food.yaml", "log.yaml", "2006/01/02", "10"
			c.Args = append([]string{"--today", "2001/02/04"}, c.Args...)
		}
		if given != 0 {
			loaded = false // (the named log file wins over the file's entry: only success or failure is observable)
		}
		switch how {
		case 0:
			c.Args = append([]string{"--config", name}, c.Args...)
		case 1:
			c.Env["HR_CONFIG"] = name
		default:
			c.Args = append([]string{"-c", name}, c.Args...)
		}
		r := runApp(c)
		x.w.binMustAgree(x, c, r, "C16|explicit-config-file") // (the binary's HOME is the empty scratch directory: no default file)
		x.Obs(r.Key())
		x.Case(fmt.Sprint(how, kind, given), true)
		rep := map[string]interface{}{"cmd": c.shell(), "observed": r.String()}
		switch {
		case !exists && !r.Failed:
			x.Violate("C16|missing-explicit-config-accepted", fmt.Sprintf("`%s` succeeded although %s does not exist (%s):\n%s", c.shell(), name, kinds[kind], r.String()), rep)
		case exists && loaded && (r.Failed || !strings.Contains(r.Stdout, "7.000")):
			x.Violate("C16|existing-explicit-config-not-loaded", fmt.Sprintf("`%s` with an existing %s (%s; LogFileName=other.yaml): %s", c.shell(), name, kinds[kind], r.String()), rep)
		case exists && !loaded && (r.Failed || !strings.Contains(r.Stdout, "1.000")):
			// an existing file without entries: loaded, every setting keeps its default
			x.Violate("C16|existing-empty-explicit-config-not-accepted", fmt.Sprintf("`%s` with an existing, empty %s (%s): %s", c.shell(), name, kinds[kind], r.String()), rep)
		}
	})
	// --no-database behaves as an empty recipe book
	// every command shape that reads the recipe book (stats opens its files itself; print, csv log and report quantity
	// do not look at the book at all, but must not mind the flag either)
	noDbCmds := shapeArgs(func(s cmdShape) bool { return !s.Lint && s.Args[0] != "summary" })
	noDbCmds = append(noDbCmds, []string{"summary", "2001/02/03"}, []string{"report", "element-total", "cal"}, []string{"--today", "2001/02/10", "stats"})
	w.Explore("no-database", ExploreOpts{ShardDepth: 3}, func(x *Exec) {
		ci := x.Choose(len(noDbCmds), "input:command")
		src := x.Choose(4, "input:database-source") // none (food.yaml exists), -d, HR_DATABASE, config
		missing := x.Choose(2, "input:database-file-missing")
		files := map[string]string{"log.yaml": "2001/02/03:\n  r: 2\n  u: 1\n", "empty.yaml": ""}
		dbName := "food.yaml"
		if src != 0 {
			dbName = "named.yaml"
		}
		if missing == 0 {
			files[dbName] = chainBook(3, 2)
		}
		act := appCase{Args: []string{"--no-color", "--no-database"}, Files: files, Mod: patchDefault, Env: map[string]string{}}
		switch src {
		case 1:
			act.Args = append(act.Args, "-d", dbName)
		case 2:
			act.Env["HR_DATABASE"] = dbName
		case 3:
			files["db.cfg"] = "[Global]\nDbFileName=" + dbName + "\n"
			act.Args = append(act.Args, "--config", "db.cfg")
		}
		act.Args = append(act.Args, noDbCmds[ci]...)
		exp := appCase{Args: append([]string{"--no-color", "-d", "empty.yaml"}, noDbCmds[ci]...), Files: files, Mod: patchDefault}
		ra, re := runApp(act), runApp(exp)
		x.Obs(ra.Key())
		x.Case(fmt.Sprint(ci, src, missing), true)
		// (stats names the file it read: that line legitimately differs between --no-database and -d empty.yaml)
		noFileLine := func(r AppRun) string {
			var keep []string
			for _, l := range strings.Split(r.Key(), "\n") {
				if !strings.Contains(l, "Database file:") {
					keep = append(keep, l)
				}
			}
			return strings.Join(keep, "\n")
		}
		if noFileLine(ra) != noFileLine(re) || ra.Failed {
			srcName := []string{"default food.yaml", "-d", "HR_DATABASE", "config DbFileName"}[src]
			x.Violate("C16|no-database-not-empty-book|"+srcName, fmt.Sprintf("`%s` (database file %s: %s) prints:\n%s\nwith an empty recipe book `%s` prints:\n%s", act.shell(), dbName, []string{"present", "missing"}[missing], ra.String(), exp.shell(), re.String()),
				map[string]interface{}{"cmd": act.shell(), "reference_cmd": exp.shell(), "observed": ra.String(), "expected": re.String()})
		}
	})
}
