package main

// D-app: the real GetApp().Run(argv) in-process, on real files in the worker's
// temp dir, with os.Stdout captured, the environment and time zone owned.

import (
	"bytes"
	"fmt"
	"io/ioutil"
	"os"
	"os/exec"
	"path/filepath"
	"runtime/debug"
	"sort"
	"strings"
	"syscall"
	"time"

	"github.com/aquilax/hranoprovod-cli/v3/verifshim"
	"github.com/urfave/cli/v2"
)

func reversePerm(n int, site string) []int {
	p := make([]int, n)
	for i := range p {
		p[i] = n - 1 - i
	}
	return p
}

type AppRun struct {
	Stdout string // what the report wrote to os.Stdout
	AppOut string // what urfave/cli wrote to app.Writer / ErrWriter (help, usage errors)
	Err    string // error text returned by Run ("" when nil)
	Failed bool   // Run returned a non-nil error
	Panic  string // recovered panic, with stack
}

func (r AppRun) String() string {
	s := r.Stdout
	if r.AppOut != "" {
		s += "\n[app writer] " + r.AppOut
	}
	if r.Failed {
		s += "\n[error] " + r.Err
	}
	if r.Panic != "" {
		s += "\n[panic] " + r.Panic
	}
	return s
}

// Key is the observable outcome (stdout bytes + success/failure + error text).
func (r AppRun) Key() string {
	return r.Stdout + "\x00" + r.AppOut + "\x00" + r.Err + "\x00" + fmt.Sprint(r.Failed) + "\x00" + firstLine(r.Panic)
}

func firstLine(s string) string {
	if i := strings.Index(s, "\n"); i >= 0 {
		return s[:i]
	}
	return s
}

type appLogEntry struct {
	c appCase
	r AppRun
}

// appRunLog: every application run of the current execution (cases and results), so
// that a violation can be confirmed on the un-instrumented binary before it is believed.
var appRunLog []appLogEntry

func logRun(c appCase, r AppRun) {
	if len(appRunLog) < 64 {
		appRunLog = append(appRunLog, appLogEntry{c, r})
	}
}

type appEnv struct {
	dir     string
	capture *os.File
	written map[string]string
	realOut *os.File
	hrVars  []string
	inited  bool
}

var theApp appEnv

func (w *Worker) appInit() {
	if theApp.inited {
		return
	}
	dir := w.TmpDir
	if dir == "" {
		d, err := ioutil.TempDir("", "verif-app-")
		if err != nil {
			fatalHarness("tempdir: %v", err)
		}
		dir = d
	}
	if err := os.Chdir(dir); err != nil {
		fatalHarness("chdir: %v", err)
	}
	f, err := os.OpenFile(filepath.Join(dir, ".stdout-capture"), os.O_RDWR|os.O_CREATE|os.O_TRUNC, 0o644)
	if err != nil {
		fatalHarness("capture file: %v", err)
	}
	theApp = appEnv{dir: dir, capture: f, written: map[string]string{}, realOut: os.Stdout, inited: true,
		hrVars: []string{"HR_DATABASE", "HR_LOGFILE", "HR_CONFIG", "HR_DATE_FORMAT", "HR_MAXDEPTH"}}
	for _, v := range theApp.hrVars {
		os.Unsetenv(v)
	}
	cli.OsExiter = func(code int) {}
}

// writeFiles makes the worker directory contain exactly the given files (relative names).
// A content starting with symlinkPrefix makes the name a symbolic link to the rest; one starting with fifoPrefix
// makes it a named pipe into which a helper process writes the rest (once) when somebody opens it for reading.
const symlinkPrefix = "\x00symlink:"
const fifoPrefix = "\x00fifo:"

func writeFiles(files map[string]string) (cleanup func()) {
	var fifos []string
	defer func() {
		var feeders []*exec.Cmd
		for _, name := range fifos {
			f := exec.Command("/bin/sh", "-c", `exec printf %s "$0" > "$1"`, strings.TrimPrefix(files[name], fifoPrefix), filepath.Join(theApp.dir, name))
			if err := f.Start(); err != nil {
				fatalHarness("fifo feeder: %v", err)
			}
			feeders = append(feeders, f)
		}
		names := fifos
		cleanup = func() {
			for _, f := range feeders {
				f.Process.Kill()
				f.Wait()
			}
			for _, n := range names {
				os.Remove(filepath.Join(theApp.dir, n))
			}
		}
	}()
	for name, content := range files {
		if old, ok := theApp.written[name]; ok && old == content {
			continue
		}
		p := filepath.Join(theApp.dir, name)
		if strings.Contains(name, "/") {
			os.MkdirAll(filepath.Dir(p), 0o755)
		}
		os.Remove(p)
		if strings.HasPrefix(content, symlinkPrefix) {
			if err := os.Symlink(strings.TrimPrefix(content, symlinkPrefix), p); err != nil {
				fatalHarness("symlink %s: %v", p, err)
			}
			theApp.written[name] = content
			continue
		}
		if strings.HasPrefix(content, fifoPrefix) {
			if err := syscall.Mkfifo(p, 0o644); err != nil {
				fatalHarness("mkfifo %s: %v", p, err)
			}
			delete(theApp.written, name) // made afresh for every run
			fifos = append(fifos, name)
			continue
		}
		if err := ioutil.WriteFile(p, []byte(content), 0o644); err != nil {
			fatalHarness("write %s: %v", p, err)
		}
		theApp.written[name] = content
	}
	for name := range theApp.written {
		if _, keep := files[name]; !keep {
			os.Remove(filepath.Join(theApp.dir, name))
			delete(theApp.written, name)
		}
	}
	return nil // (replaced by the deferred function)
}

type appCase struct {
	Args  []string          `json:"args"`
	Files map[string]string `json:"files"`
	Env   map[string]string `json:"env,omitempty"`
	TZ    int               `json:"tz_offset_s,omitempty"` // time.Local = FixedZone(offset)
	// TZName: time.Local = the named zone of the tz database (zones with daylight-saving rules); takes precedence over TZ
	TZName string           `json:"tz_name,omitempty"`
	Mod    func(a *cli.App) `json:"-"`
	// SortedMaps: deliver map keys in sorted order. By default (no explorer-installed
	// order) every ranged map is delivered in REVERSE sorted order, so that a report
	// that forgets to sort is exposed by every check, not only by C05.
	SortedMaps bool `json:"sorted_maps,omitempty"`
}

func (c appCase) shell() string {
	var sb strings.Builder
	names := make([]string, 0, len(c.Files))
	for n := range c.Files {
		names = append(names, n)
	}
	sort.Strings(names)
	for _, n := range names {
		switch {
		case strings.HasPrefix(c.Files[n], symlinkPrefix):
			sb.WriteString(fmt.Sprintf("ln -s %s %s; ", shQuote(strings.TrimPrefix(c.Files[n], symlinkPrefix)), n))
		case strings.HasPrefix(c.Files[n], fifoPrefix):
			sb.WriteString(fmt.Sprintf("mkfifo %s; printf %%s %s > %s & ", n, shQuote(strings.TrimPrefix(c.Files[n], fifoPrefix)), n))
		default:
			sb.WriteString(fmt.Sprintf("printf %%s %s > %s; ", shQuote(c.Files[n]), n))
		}
	}
	for k, v := range c.Env {
		sb.WriteString(fmt.Sprintf("%s=%s ", k, shQuote(v)))
	}
	if c.TZName != "" {
		sb.WriteString("TZ=" + c.TZName + " ")
	}
	sb.WriteString("hranoprovod-cli")
	for _, a := range c.Args {
		sb.WriteString(" " + shQuote(a))
	}
	return sb.String()
}

func shQuote(s string) string {
	return "'" + strings.ReplaceAll(s, "'", `'\''`) + "'"
}

// runApp runs the real application once.
func runApp(c appCase) (res AppRun) {
	if !theApp.inited {
		fatalHarness("runApp before appInit")
	}
	defer func() { logRun(c, res) }()
	defer writeFiles(c.Files)()
	for k, v := range c.Env {
		os.Setenv(k, v)
	}
	oldLocal := time.Local
	if c.TZName != "" {
		loc, err := time.LoadLocation(c.TZName)
		if err != nil {
			fatalHarness("time zone %s: %v (callers test zoneAvailable first)", c.TZName, err)
		}
		time.Local = loc
	} else if c.TZ != 0 {
		time.Local = time.FixedZone(fmt.Sprintf("TZ%+d", c.TZ), c.TZ)
	} else {
		time.Local = time.UTC
	}
	theApp.capture.Truncate(0)
	theApp.capture.Seek(0, 0)
	os.Stdout = theApp.capture
	var appOut bytes.Buffer
	defer func() {
		os.Stdout = theApp.realOut
		time.Local = oldLocal
		for k := range c.Env {
			os.Unsetenv(k)
		}
		if r := recover(); r != nil {
			switch r.(type) {
			case abortNotMine, harnessError:
				panic(r)
			}
			if ap, isApp := r.(appPanic); isApp {
				res.Panic = ap.text
			} else {
				res.Panic = fmt.Sprintf("%v\n%s", r, trimStack(string(debug.Stack())))
			}
			res.Failed = true
		}
		st, err := theApp.capture.Stat()
		if err == nil && st.Size() > 0 {
			buf := make([]byte, st.Size())
			n, _ := theApp.capture.ReadAt(buf, 0)
			res.Stdout = string(buf[:n])
		}
		res.AppOut = appOut.String()
	}()
	// every invocation of the tool starts with freshly initialised package-level variables (unless the exploration is
	// about several runs in one process: appKeepState)
	if !appKeepState {
		verifshim.ResetPackageState()
	}
	if verifshim.PermHook == nil && !c.SortedMaps {
		verifshim.PermHook = reversePerm
		defer func() { verifshim.PermHook = nil }()
	}
	a := GetApp()
	a.Writer = &appOut
	a.ErrWriter = &appOut
	a.ExitErrHandler = func(*cli.Context, error) {}
	if c.Mod != nil {
		c.Mod(a)
	}
	err := runScheduled(func() error { return a.Run(append([]string{"hranoprovod-cli"}, c.Args...)) })
	if err != nil {
		res.Failed = true
		res.Err = err.Error()
	}
	return res
}

// appKeepState: the next application runs happen in the process of the runs before them (a program that calls the
// commands several times, as the e2e tests do): package-level variables keep what the earlier runs left there.
var appKeepState bool

// concurrentAppRuns counts the application runs of this worker that started goroutines.
var concurrentAppRuns int

// cachedRun: the result of an application run is remembered under key - unless the run started goroutines: then its
// outcome belongs to one schedule, the run makes scheduling choices every time it is made, and remembering it would
// make the number of choices of an execution depend on what ran before (a replay divergence, and schedules unexplored).
func cachedRun(cache map[string]AppRun, limit int, key string, rc appCase) AppRun {
	if r, ok := cache[key]; ok {
		logRun(rc, r)
		return r
	}
	before := concurrentAppRuns
	r := runApp(rc)
	if concurrentAppRuns == before && len(cache) < limit {
		cache[key] = r
	}
	return r
}

// appPanic carries a panic of the application (value and stack) out of the scheduler thread it happened in.
type appPanic struct{ text string }

var appSchedActive, appSchedDisabled bool

// runScheduled runs one application run as thread "main" of a cooperative scheduler bound to the current execution:
// goroutines the command starts become threads, their channel and sync operations transitions (class "appsched",
// bounded by the exploration's deviation budget, 1 unless it says otherwise). A command that starts no goroutine
// makes no choice. When the run was concurrent the violations of this execution are not re-run on the plain binary
// (its schedule is not ours to choose).
func runScheduled(f func() error) error {
	x := curExec
	if x == nil || appSchedActive || appSchedDisabled {
		return f()
	}
	s := NewSched(x)
	s.Class = "appsched"
	var err error
	finished := false
	pan := ""
	s.Go("main", func() {
		defer func() {
			if r := recover(); r != nil {
				switch r.(type) {
				case abortNotMine, harnessError, oracleFailure:
					panic(r)
				}
				pan = fmt.Sprintf("%v\n%s", r, trimStack(string(debug.Stack())))
			}
		}()
		err = f()
		finished = true
	})
	appSchedActive = true
	func() {
		defer func() { appSchedActive = false }()
		s.Run()
	}()
	if s.Stalled {
		// a goroutine blocks on something the scheduler does not intercept: from now on this worker runs the application
		// on real goroutines (the abandoned threads are blocked for good)
		appSchedDisabled = true
		x.Note("application_runs_not_schedulable", 1)
		return f()
	}
	if len(s.Trace) > 0 {
		x.NoConfirm = true
		x.Note("concurrent_application_runs", 1)
		concurrentAppRuns++
	}
	if pan != "" {
		panic(appPanic{pan})
	}
	if len(s.Panics) > 0 {
		panic(appPanic{"panic in a goroutine of the command: " + strings.Join(s.Panics, "; ")})
	}
	if !finished {
		return fmt.Errorf("VERIF: the command does not return under the schedule %v (%v)", s.Trace, s.ParkedAtEnd())
	}
	return err
}

// zoneAvailable: the named zone can be loaded in-process.
func zoneAvailable(name string) bool {
	_, err := time.LoadLocation(name)
	return err == nil
}

// tzName maps a fixed offset to an IANA name the real binary can be given through TZ.
func tzName(offset int) (string, bool) {
	if offset == 0 {
		return "UTC", true
	}
	if offset%3600 != 0 {
		return "", false
	}
	h := offset / 3600
	name := fmt.Sprintf("Etc/GMT%+d", -h) // POSIX sign convention
	if _, err := os.Stat("/usr/share/zoneinfo/" + name); err != nil {
		return "", false
	}
	return name, true
}

// confirmRuns re-runs every logged application run of this execution on the
// un-instrumented binary (fresh process each). It returns "" when the binary agrees
// with every in-process observation (stdout equal, or equal modulo row order where map
// iteration order is involved; same success/failure), else a description.
func (w *Worker) confirmRuns() (string, int) {
	if w.Bin == "" {
		return "", 0
	}
	n := 0
	for _, e := range appRunLog {
		if e.c.Mod != nil {
			continue // patched application object: not reproducible on the binary
		}
		tz, ok := tzName(e.c.TZ)
		if e.c.TZName != "" {
			_, err := os.Stat("/usr/share/zoneinfo/" + e.c.TZName)
			tz, ok = e.c.TZName, err == nil
		}
		if !ok {
			continue
		}
		b := w.runBin(e.c, tz)
		n++
		failed := e.r.Failed || e.r.Panic != ""
		if (b.Code != 0) != failed {
			return fmt.Sprintf("`%s`: in-process failed=%v (%s), real binary exit status %d (stderr %q)", e.c.shell(), failed, e.r.Err, b.Code, tailStr(b.Stderr, 300)), n
		}
		if b.Stdout != e.r.Stdout && sortedLines(b.Stdout) != sortedLines(e.r.Stdout) && !(e.r.AppOut != "" || e.r.Panic != "") {
			return fmt.Sprintf("`%s`: in-process stdout\n%s\nreal binary stdout\n%s", e.c.shell(), tailStr(e.r.Stdout, 600), tailStr(b.Stdout, 600)), n
		}
	}
	return "", n
}

func tailStr(s string, n int) string {
	if len(s) <= n {
		return s
	}
	return s[:n/2] + " ... " + s[len(s)-n/2:]
}

func trimStack(s string) string {
	lines := strings.Split(s, "\n")
	out := []string{}
	for _, l := range lines {
		if strings.Contains(l, "/repo/") || strings.Contains(l, "hranoprovod") {
			out = append(out, strings.TrimSpace(l))
		}
		if len(out) >= 8 {
			break
		}
	}
	return strings.Join(out, " <- ")
}

// runBin runs the un-instrumented binary built from the same tree (D-bin).
type BinRun struct {
	Stdout string
	Stderr string
	Code   int
}

func (w *Worker) runBin(c appCase, tzName string) BinRun {
	if w.Bin == "" {
		fatalHarness("plain binary requested but not built (NeedBin)")
	}
	defer writeFiles(c.Files)()
	cmd := exec.Command(w.Bin, c.Args...)
	cmd.Dir = theApp.dir
	env := []string{"HOME=" + theApp.dir, "PATH=/usr/bin:/bin"}
	if tzName != "" {
		env = append(env, "TZ="+tzName)
	} else {
		env = append(env, "TZ=UTC")
	}
	for k, v := range c.Env {
		env = append(env, k+"="+v)
	}
	cmd.Env = env
	var so, se bytes.Buffer
	cmd.Stdout = &so
	cmd.Stderr = &se
	err := cmd.Run()
	code := 0
	if err != nil {
		code = -1
		if ee, ok := err.(*exec.ExitError); ok {
			code = ee.ExitCode()
		}
	}
	return BinRun{so.String(), se.String(), code}
}

// conform checks that the in-process observation equals what the real binary does
// (stdout bytes and success/failure). A disagreement is a harness error.
func (w *Worker) conform(c appCase, r AppRun) {
	if w.Bin == "" {
		return
	}
	b := w.runBin(c, "")
	okStatus := (b.Code != 0) == r.Failed
	if r.Panic != "" {
		okStatus = b.Code != 0
	}
	if b.Stdout != r.Stdout+r.AppOut && b.Stdout != r.Stdout || !okStatus {
		if r.AppOut != "" && strings.Contains(b.Stdout+b.Stderr, strings.TrimSpace(firstLine(r.AppOut))) && okStatus {
			return
		}
		if okStatus && sortedLines(b.Stdout) == sortedLines(r.Stdout) {
			// same rows in another order: map iteration order of the real runtime (C05's business, not a harness fault)
			w.Notes["conformance_equal_modulo_row_order"]++
			return
		}
		// not fatal: on a changed tree the program itself may differ from run to run (map order, leaked
		// state). It is reported as a harness inconsistency only if the run ends without a confirmed violation.
		if w.Nondet == "" {
			w.Nondet = fmt.Sprintf("conformance: in-process run and real binary disagree for `%s`\n--- in-process\n%s\n--- binary (exit %d)\n%s\n%s", c.shell(), tailStr(r.String(), 1500), b.Code, tailStr(b.Stdout, 1500), tailStr(b.Stderr, 500))
		}
		w.Notes["conformance_mismatches"]++
		return
	}
	w.Notes["conformance_runs_real_binary"]++
}

func sortedLines(s string) string {
	l := strings.Split(s, "\n")
	sort.Strings(l)
	return strings.Join(l, "\n")
}

// binMustAgree: exit status and error message are produced by main(), which the in-process driver bypasses. For a run
// that failed in-process the real binary (fresh process, same files, environment and zone) must exit non-zero and print
// the same error; for a run that succeeded it must exit 0 with the same report (reported as conformance, not as a
// violation, when only the order of rows differs). The oracle itself runs on the binary, so no further confirmation.
func (w *Worker) binMustAgree(x *Exec, c appCase, r AppRun, sig string) {
	if w.Bin == "" {
		return
	}
	tz := ""
	if c.TZName != "" {
		tz = c.TZName
	} else if n, ok := tzName(c.TZ); ok {
		tz = n
	}
	b := w.runBin(c, tz)
	w.Notes["runs_repeated_on_the_real_binary"]++
	inFailed := r.Failed || r.Panic != ""
	rep := map[string]interface{}{"cmd": c.shell(), "in_process": r.String(), "binary_exit_status": b.Code, "binary_stdout": tailStr(b.Stdout, 800), "binary_stderr": tailStr(b.Stderr, 800)}
	switch {
	case inFailed && b.Code == 0:
		x.NoConfirm = true
		x.Violate(sig+"|real-binary-exit-status-0", fmt.Sprintf("`%s`: the command fails (%s) but the program exits with status 0\nstdout: %s\nstderr: %s", c.shell(), firstLine(r.Err+r.Panic), tailStr(b.Stdout, 400), tailStr(b.Stderr, 400)), rep)
	case inFailed && r.Panic == "" && strings.TrimSpace(firstLine(r.Err)) != "" && !strings.Contains(b.Stderr+b.Stdout, strings.TrimSpace(firstLine(r.Err))):
		x.NoConfirm = true
		x.Violate(sig+"|real-binary-does-not-print-the-error", fmt.Sprintf("`%s`: the command fails with %q; the program exits with status %d and prints\nstdout: %s\nstderr: %s", c.shell(), firstLine(r.Err), b.Code, tailStr(b.Stdout, 400), tailStr(b.Stderr, 400)), rep)
	case !inFailed && b.Code != 0:
		x.NoConfirm = true
		x.Violate(sig+"|real-binary-fails-where-the-command-succeeds", fmt.Sprintf("`%s`: the command succeeds in-process; the program exits with status %d\nstderr: %s", c.shell(), b.Code, tailStr(b.Stderr, 400)), rep)
	case !inFailed && b.Stdout != r.Stdout && b.Stdout != r.Stdout+r.AppOut && b.Stdout != r.AppOut+r.Stdout && sortedLines(b.Stdout) != sortedLines(r.Stdout):
		// (help and usage texts go to the application's writer in-process and to stdout in the binary)
		if w.Nondet == "" {
			w.Nondet = fmt.Sprintf("conformance: in-process run and real binary disagree for `%s`\n--- in-process\n%s\n--- binary\n%s", c.shell(), tailStr(r.Stdout, 1200), tailStr(b.Stdout, 1200))
		}
	}
}
