package main

import (
	"fmt"
	"math"
	"math/big"
	"sort"
	"strings"
	"time"
)

func init() { propChecks["C12"] = checkC12 }

var c12Blocks = []absDay{
	{Date: "2021/01/24", Entries: []absIng{{"k/r1", 1}}},
	{Date: "2021/01/24", Entries: []absIng{{"u", 2}, {"k/r2", 0.5}}},
	{Date: "2021/01/25", Entries: []absIng{{"k/r1", 2}, {"u", 1}}},
	{Date: "2021/01/25", Entries: []absIng{{"u", 1}, {"k/r1", 2}}},
	{Date: "2021/02/25"}, // (same day of the month as 01/25)
	{Date: "2021/01/25", Entries: []absIng{{"k/r1", -1}, {"cal", -2}}},
	{Date: "2021/01/24", Entries: []absIng{{"k/r1", 1}, {"u", 1}, {"k/r1", 0.5}}, Notes: []absNote{{"mood", "ok"}}},
	{Date: "2020/01/25", Entries: []absIng{{"fish & chips <x> 'y'", 1}, {"k", 2}, {"k/", 1}, {"k//r1", 1}}, Notes: []absNote{{"", "50% done"}}},
	c12BigBlock(),
	// negative zeros: a negative quantity of a food with a zero coefficient, a zero quantity of a food with negative ones
	// (the first number this day prints is a negative zero: a literal -0 quantity)
	{Date: "2021/01/01", Entries: []absIng{{"u", math.Copysign(0, -1)}, {"k/r1", 0}, {"r0", -1}}},
}

// c12BigBlock: a day of 70 entries (wide, with repeats) whose report alone exceeds the output buffer
func c12BigBlock() absDay {
	d := absDay{Date: "2020/12/31"} // last day of a leap year: day 366, next to 2021/01/01 below
	for j := 0; j < 70; j++ {
		name := fmt.Sprintf("bulk/%02d", j%50)
		if j%10 == 3 {
			name = "k/r2"
		}
		d.Entries = append(d.Entries, absIng{name, float64(j%7) - 2.5})
	}
	return d
}

var _ = c12BigBlock

var c12PerDay = [][]string{
	{"reg"}, {"reg", "--internal-template-name", "left-aligned"}, {"reg", "--use-old-reg-reporter"},
	{"csv", "log"}, {"print"}, {"reg", "-f", "r"}, {"reg", "-s", "cal"}, {"reg", "-s", "fat", "--csv"},
	{"reg", "-e", "2021/01/25"}, {"print", "-b", "2021/01/25", "-e", "2021/01/26"},
	{"reg", "-s", "k/r1"}, // X that is a recipe of the book and a logged food at once
	{"(colour)", "reg"},   // the plain invocation, escape codes and all
}
var c12Period = [][]string{{"bal"}, {"report", "totals"}, {"report", "quantity"}, {"bal", "-s", "cal"}, {"reg", "-s", "cal", "-g"}, {"bal", "-e", "2021/01/25"}}

// rowMap turns a period report into name -> list of numbers (all columns).
func periodRowMap(cmd []string, out string) (map[string][]*big.Rat, error) {
	m := map[string][]*big.Rat{}
	kind := cmd[0]
	if len(cmd) > 1 {
		kind += " " + cmd[1]
	}
	if kind == "bal -e" {
		kind = "bal"
	}
	switch kind {
	case "report totals":
		t, _, err := parseTotals(out)
		if err != nil {
			return nil, err
		}
		for k, v := range t {
			m[k] = []*big.Rat{dec(v.Pos), dec(v.Neg), dec(v.Sum)}
		}
	case "report quantity", "reg -s":
		rows, err := parseValueName(out)
		if err != nil {
			return nil, err
		}
		for _, r := range rows {
			if _, dup := m[r.Name]; dup {
				return nil, fmt.Errorf("%q listed twice", r.Name)
			}
			m[r.Name] = []*big.Rat{dec(r.Val)}
		}
	default: // bal
		b, err := parseBalance(out)
		if err != nil {
			return nil, err
		}
		for _, r := range b.Rows {
			if _, dup := m[r.Path]; dup {
				return nil, fmt.Errorf("path %q listed twice", r.Path)
			}
			m[r.Path] = []*big.Rat{dec(r.Amount)}
		}
		if b.HasTotal {
			m["\x00grand total"] = []*big.Rat{dec(b.Total)}
		}
	}
	return m, nil
}

func rowMapString(m map[string][]*big.Rat) string {
	ks := make([]string, 0, len(m))
	for k := range m {
		ks = append(ks, k)
	}
	sort.Strings(ks)
	s := ""
	for _, k := range ks {
		s += k + "="
		for _, v := range m[k] {
			s += v.FloatString(2) + ","
		}
		s += " "
	}
	return s
}

// c12DateFormat: when set, the histories are written, and the commands run, under this date format
var c12DateFormat string

// c12Redate rewrites a date of the default format into format f (anything else is returned as it is)
func c12Redate(s, f string) string {
	t, err := time.Parse("2006/01/02", s)
	if err != nil {
		return s
	}
	return t.Format(f)
}

func checkC12(w *Worker) {
	w.appInit()
	depth, freshDepth := 4, 2
	if w.Tier == "thorough" {
		depth = 5 // 10 blocks: 111110 histories per book
		freshDepth = 3
	}
	blockText := make([]string, len(c12Blocks))
	for i, b := range c12Blocks {
		blockText[i] = renderLog(absLog{b})
	}
	// pick: which book, which block universe and which history (sequence of block indices) an execution is about
	type c12Pick struct {
		bi        int // key of the book for the cache
		bookText  string
		blockText []string
		hist      []int
		exactSums bool // printed numbers are exact: period reports may be added up as decimals
	}
	var pick func(x *Exec, depth int) c12Pick
	pickBlocks := func(x *Exec, depth int) c12Pick {
		bi := x.Choose(len(c07Books), "input:book")
		k := 1 + x.Choose(depth, "input:length")
		hist := make([]int, k)
		for i := range hist {
			hist[i] = x.Choose(len(c12Blocks), "event:append-block")
		}
		return c12Pick{bi, renderBook(c07Books[bi]), blockText, hist, true}
	}
	pick = pickBlocks
	body := func(fresh bool, depth int) func(x *Exec) {
		cache := map[string]AppRun{}
		pick := pick
		return func(x *Exec) {
			pk := pick(x, depth)
			bi, bookText, blockText, hist := pk.bi, pk.bookText, pk.blockText, pk.hist
			k := len(hist)
			text := func(h []int) string {
				s := ""
				for _, b := range h {
					s += blockText[b]
				}
				return s
			}
			run := func(cmd []string, h []int) AppRun {
				key := fmt.Sprint(bi, cmd, h, c12DateFormat)
				rc := appCase{Args: append([]string{"--no-color"}, cmd...), Files: map[string]string{"food.yaml": bookText, "log.yaml": text(h)}}
				if c12DateFormat != "" {
					// the same history written and read under another date format (dates among the arguments too)
					rc.Args = []string{"--no-color", "--date-format", c12DateFormat}
					for _, a := range cmd {
						rc.Args = append(rc.Args, c12Redate(a, c12DateFormat))
					}
				}
				if cmd[0] == "(colour)" {
					rc.Args = append([]string{}, cmd[1:]...)
					if c12DateFormat != "" {
						rc.Args = append([]string{"--date-format", c12DateFormat}, cmd[1:]...)
					}
				}
				if r, ok := cache[key]; ok {
					logRun(rc, r)
					return r
				}
				var r AppRun
				if fresh {
					// one process of the un-instrumented binary per run: nothing a run leaves behind in memory can reach the next
					br := x.w.runBin(rc, "")
					r = AppRun{Stdout: br.Stdout, Failed: br.Code != 0, Err: firstLine(br.Stderr)}
					logRun(rc, r)
				} else {
					return cachedRun(cache, 300000, key, rc)
				}
				if len(cache) < 300000 {
					cache[key] = r
				}
				return r
			}
			H, b := hist[:k-1], hist[k-1:]
			x.Case(fmt.Sprint(bi, hist), k >= 2)
			edge := fmt.Sprintf("book %d, history %v + block %d", bi, H, b[0])
			state := ""
			for _, cmd := range c12PerDay {
				whole, left, right := run(cmd, hist), run(cmd, H), run(cmd, b)
				state += whole.Key()
				name := strings.Join(cmd, " ")
				if whole.Failed || left.Failed || right.Failed {
					x.Violate("C12|"+name+"|failed", edge+": "+whole.String(), nil)
					return
				}
				if whole.Stdout != left.Stdout+right.Stdout {
					x.Violate("C12|"+name+"|not-concatenation", fmt.Sprintf("%s\n`%s` on the concatenated log:\n%s\non the history alone:\n%s\non the appended block alone:\n%s\nlog:\n%s", edge, name, whole.Stdout, left.Stdout, right.Stdout, text(hist)),
						map[string]interface{}{"book": bookText, "log": text(hist), "history": H, "block": b[0], "cmd": name})
					return
				}
			}
			canon := ""
			for _, cmd := range c12Period {
				if !pk.exactSums {
					break // (amounts that are not multiples of 1/100: sums of rounded numbers are not rounded sums)
				}
				whole, left, right := run(cmd, hist), run(cmd, H), run(cmd, b)
				name := strings.Join(cmd, " ")
				if whole.Failed || left.Failed || right.Failed {
					x.Violate("C12|"+name+"|failed", edge+": "+whole.String(), nil)
					return
				}
				mw, e1 := periodRowMap(cmd, whole.Stdout)
				ml, e2 := periodRowMap(cmd, left.Stdout)
				mr, e3 := periodRowMap(cmd, right.Stdout)
				if e1 != nil || e2 != nil || e3 != nil {
					x.Violate("C12|"+name+"|unparseable", fmt.Sprintf("%s: %v %v %v\n%s", edge, e1, e2, e3, whole.Stdout), nil)
					return
				}
				sum := map[string][]*big.Rat{}
				for _, m := range []map[string][]*big.Rat{ml, mr} {
					for k, vs := range m {
						if cur, ok := sum[k]; ok {
							nv := make([]*big.Rat, len(vs))
							for i := range vs {
								nv[i] = new(big.Rat).Add(cur[i], vs[i])
							}
							sum[k] = nv
						} else {
							sum[k] = vs
						}
					}
				}
				canon += name + ":" + rowMapString(mw) + ";"
				if rowMapString(mw) != rowMapString(sum) {
					x.Violate("C12|"+name+"|not-elementwise-sum", fmt.Sprintf("%s\n`%s` on the concatenated log: %s\nsum of the parts:            %s\nlog:\n%s", edge, name, rowMapString(mw), rowMapString(sum), text(hist)),
						map[string]interface{}{"book": bookText, "log": text(hist), "history": H, "block": b[0], "cmd": name})
					return
				}
			}
			x.Obs(state, canon)
			x.Note("period_state_"+fmt.Sprint(hash64([]byte(canon))%1000000007), 0)
			x.Sample(map[string]interface{}{"book": bi, "history": H, "appended_block": b[0], "log": text(hist), "period_state": canon})
		}
	}
	// the same edges with every run in a process of its own (the in-process driver would carry whatever one run keeps
	// in package-level state over to the next, which is exactly what a separate invocation of the tool cannot do)
	// every special scenario (harness/specials.go): the days of its log as blocks, in file order and reversed, every
	// edge "first k days -> first k+1 days"
	specials := specialsFor(w.Tier)
	pick = func(x *Exec, depth int) c12Pick {
		si := x.Choose(len(specials), "input:scenario")
		sc := specials[si]
		rev := x.Choose(2, "input:reversed") == 1
		var texts []string
		for _, d := range sc.Log {
			texts = append(texts, renderLog(absLog{d}))
		}
		if rev {
			for l, r := 0, len(texts)-1; l < r; l, r = l+1, r-1 {
				texts[l], texts[r] = texts[r], texts[l]
			}
		}
		if len(texts) == 0 {
			texts = []string{""}
		}
		k := 1 + x.Choose(len(texts), "input:length")
		hist := make([]int, k)
		for i := range hist {
			hist[i] = i
		}
		return c12Pick{1000 + si*2 + btoi(rev), renderBook(sc.Book), texts, hist, sc.Exact}
	}
	w.Explore("special-scenarios", ExploreOpts{ShardDepth: 2}, body(false, 0))
	pick = pickBlocks
	w.Explore("append-histories-one-process-per-run", ExploreOpts{ShardDepth: 3}, body(true, freshDepth))
	w.Explore("append-histories", ExploreOpts{ShardDepth: 4}, body(false, depth))
	// the same under date formats whose headings contain blanks, month names, no leading zeros (a heading is whatever
	// starts in the first column and ends in a colon - whatever it looks like)
	for _, f := range []string{"02 Jan 2006", "Jan 2 2006", "2.1.2006", "2006-01-02"} {
		c12DateFormat = f
		texts := make([]string, len(c12Blocks))
		for i, b := range c12Blocks {
			b.Date = c12Redate(b.Date, f)
			texts[i] = renderLog(absLog{b})
		}
		pick = func(x *Exec, depth int) c12Pick {
			pk := pickBlocks(x, depth)
			pk.blockText = texts
			return pk
		}
		w.Explore("append-histories-date-format-"+strings.ReplaceAll(f, " ", "_"), ExploreOpts{ShardDepth: 3}, body(false, 3))
	}
	c12DateFormat = ""
}
