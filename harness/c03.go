package main

import (
	"fmt"
	"math/big"
	"sort"
	"strings"
)

func init() { propChecks["C03"] = checkC03 }

type balRow struct {
	Level  int
	Label  string
	Amount string
	Path   string // full path reconstructed from the indentation
}

type balOut struct {
	Rows     []balRow
	HasTotal bool
	Total    string
	TotalEl  string
}

func parseBalance(out string) (balOut, error) {
	var b balOut
	var stack []string
	afterSep := false
	for ln, line := range splitLines(out) {
		if line == "-----------|" {
			afterSep = true
			continue
		}
		i := strings.Index(line, " | ")
		if i < 0 {
			return b, fmt.Errorf("line %d %q: no ' | '", ln+1, line)
		}
		amt := normNum(strings.TrimSpace(line[:i]))
		rest := line[i+3:]
		if afterSep {
			if b.HasTotal {
				return b, fmt.Errorf("line %d %q: second grand total", ln+1, line)
			}
			b.HasTotal, b.Total, b.TotalEl = true, amt, rest
			continue
		}
		lvl := 0
		for strings.HasPrefix(rest, "  ") {
			rest = rest[2:]
			lvl++
		}
		if lvl > len(stack) {
			return b, fmt.Errorf("line %d %q: indentation jumps from %d to %d", ln+1, line, len(stack), lvl)
		}
		stack = append(stack[:lvl], rest)
		b.Rows = append(b.Rows, balRow{lvl, rest, amt, strings.Join(stack, "/")})
	}
	return b, nil
}

func rowsString(rs []balRow) string {
	s := ""
	for _, r := range rs {
		s += fmt.Sprintf("%s%s=%s\n", strings.Repeat("  ", r.Level), r.Label, r.Amount)
	}
	return s
}

// refTreeRows: default-mode reference - every category path once, siblings sorted,
// amount = sum of the amounts of all foods at or below the path.
func refTreeRows(amounts map[string]*big.Rat) []balRow {
	sums := map[string]*big.Rat{}
	for name, v := range amounts {
		segs := strings.Split(name, "/")
		for i := 1; i <= len(segs); i++ {
			p := strings.Join(segs[:i], "/")
			if _, ok := sums[p]; !ok {
				sums[p] = new(big.Rat)
			}
			sums[p] = new(big.Rat).Add(sums[p], v)
		}
	}
	paths := make([][]string, 0, len(sums))
	for p := range sums {
		paths = append(paths, strings.Split(p, "/"))
	}
	sort.Slice(paths, func(i, j int) bool {
		a, b := paths[i], paths[j]
		for k := 0; k < len(a) && k < len(b); k++ {
			if a[k] != b[k] {
				return a[k] < b[k]
			}
		}
		return len(a) < len(b)
	})
	var rows []balRow
	for _, segs := range paths {
		p := strings.Join(segs, "/")
		rows = append(rows, balRow{len(segs) - 1, segs[len(segs)-1], f2(sums[p]), p})
	}
	return rows
}

func prefixFree(names []string) bool {
	for _, a := range names {
		for _, b := range names {
			if a != b && strings.HasPrefix(b, a+"/") {
				return false
			}
		}
	}
	return true
}

func pathUniverse(segs []string, depth int) []string {
	var out []string
	var rec func(prefix string, d int)
	rec = func(prefix string, d int) {
		if d == 0 {
			return
		}
		for _, s := range segs {
			p := s
			if prefix != "" {
				p = prefix + "/" + s
			}
			out = append(out, p)
			rec(p, d-1)
		}
	}
	rec("", depth)
	sort.Slice(out, func(i, j int) bool {
		if strings.Count(out[i], "/") != strings.Count(out[j], "/") {
			return strings.Count(out[i], "/") < strings.Count(out[j], "/")
		}
		return out[i] < out[j]
	})
	return out
}

var balModes = []struct {
	Name string
	Args []string
}{
	{"default", nil},
	{"collapse", []string{"-c"}},
	{"collapse-last", []string{"--collapse-last"}},
}

var c03Coef = []float64{0.5, 2, -1, 0.25}

func checkC03(w *Worker) {
	w.appInit()
	var balCheck func(x *Exec, mode, single, pass int, el string, book absBook, lg absLog, names []string, qty map[string]*big.Rat)
	body := func(universe []string, pickSubset func(x *Exec) []int, passes int) func(x *Exec) {
		return func(x *Exec) {
			mode := x.Choose(len(balModes), "input:mode")
			single := x.Choose(2, "input:single")
			pass := x.Choose(passes, "input:pass")
			// the element asked for: a plain name, or a name that is a category path itself (logged directly it takes its
			// place in the tree like any other food)
			elx := "X"
			if single == 1 && x.Choose(2, "input:element-is-a-path") == 1 {
				elx = "a/X/y"
			}
			idxs := pickSubset(x)
			// log
			names := []string{}
			qty := map[string]*big.Rat{}
			var lg absLog
			day := absDay{Date: "2021/01/24"}
			day2 := absDay{Date: "2021/01/25"}
			for _, i := range idxs {
				q := float64(int64(1) << uint(i%40))
				if pass == 1 && i%2 == 1 {
					q = -q
				}
				names = append(names, universe[i])
				qty[universe[i]] = rat(q)
				day.Entries = append(day.Entries, absIng{universe[i], q})
				if pass == 2 && i%2 == 0 {
					q2 := q * 3 // stays exactly representable for the 39-path universe
					day2.Entries = append(day2.Entries, absIng{universe[i], q2})
					qty[universe[i]] = new(big.Rat).Add(qty[universe[i]], rat(q2))
				}
			}
			if pass == 1 { // logging order must not matter
				for l, r := 0, len(day.Entries)-1; l < r; l, r = l+1, r-1 {
					day.Entries[l], day.Entries[r] = day.Entries[r], day.Entries[l]
				}
			}
			lg = append(lg, day)
			if pass == 2 {
				lg = append(lg, day2)
			}
			// book: food i holds c_i of element X (and some fat); the last universe path has no X
			book := absBook{}
			for i, p := range universe {
				r := absRecipe{Name: p, Ings: []absIng{{"fat", 1}}}
				if i%2 == 1 {
					// every second food is a recipe built on the previous one (taken once, listed first)
					r.Ings = []absIng{{universe[i-1], 1}, {"fat", 1}}
				}
				// foods 4 and 10 (and the last one) are in the book but hold no X at all: they must not appear under -s X
				if i != len(universe)-1 && i != 4 && i != 10 {
					r.Ings = append(r.Ings, absIng{elx, c03Coef[i%len(c03Coef)]})
				}
				book = append(book, r)
			}
			if single == 1 && len(idxs)%2 == 0 {
				// X itself logged directly on even passes of even subsets
				lg[0].Entries = append(lg[0].Entries, absIng{elx, 3})
				names = append(names, elx)
				qty[elx] = rat(3)
			}
			balCheck(x, mode, single, pass, elx, book, lg, names, qty)
		}
	}
	// balCheck: one balance run (mode, all foods or a single element el) on book + log, where names are the distinct
	// logged foods and qty their summed quantities, against the reference tree
	balCheck = func(x *Exec, mode, single, pass int, el string, book absBook, lg absLog, names []string, qty map[string]*big.Rat) {
		{
			amounts := map[string]*big.Rat{}
			args := []string{"--no-color", "bal"}
			args = append(args, balModes[mode].Args...)
			var wantTotal *big.Rat
			if single == 1 {
				args = append(args, "-s", el)
				wantTotal = new(big.Rat)
				res := refResolve(book)
				for _, n := range names {
					if els, ok := res[n]; ok {
						if c, has := els[el]; has {
							amounts[n] = new(big.Rat).Mul(qty[n], c)
							wantTotal.Add(wantTotal, amounts[n])
						}
					} else if n == el {
						amounts[n] = qty[n]
						wantTotal.Add(wantTotal, amounts[n])
					}
				}
			} else {
				for _, n := range names {
					amounts[n] = qty[n]
				}
			}
			c := appCase{Args: args, Files: map[string]string{"food.yaml": renderBook(book), "log.yaml": renderLog(lg)}}
			r := runApp(c)
			x.Obs(r.Key())
			present := []string{}
			for n := range amounts {
				present = append(present, n)
			}
			sort.Strings(present)
			pf := prefixFree(present)
			x.Case(fmt.Sprintf("%v|%d|%d|%d", present, mode, single, pass), len(present) >= 2)
			x.Sample(map[string]interface{}{"cmd": c.shell(), "stdout": r.Stdout})
			mname := balModes[mode].Name
			if single == 1 {
				mname += "+single"
			}
			rep := map[string]interface{}{"cmd": c.shell(), "foods": present, "observed": r.String(), "prefix_free": pf}
			if r.Failed || r.Panic != "" {
				x.Violate("C03|"+mname+"|failed", fmt.Sprintf("`%s` failed: %s", c.shell(), r.String()), rep)
				return
			}
			got, err := parseBalance(r.Stdout)
			if err != nil {
				x.Violate("C03|"+mname+"|unparseable", fmt.Sprintf("`%s`: %v\n%s", c.shell(), err, r.Stdout), rep)
				return
			}
			want := refTreeRows(amounts)
			rep["expected_default_rows"] = rowsString(want)
			sums := map[string]string{}
			for _, rw := range want {
				sums[rw.Path] = rw.Amount
			}
			viol := func(kind, msg string) {
				x.Violate("C03|"+mname+"|"+kind, fmt.Sprintf("`%s`\nfoods %v (prefix-free: %v)\nprinted:\n%s%s", c.shell(), present, pf, r.Stdout, msg), rep)
			}
			if mode == 0 {
				if rowsString(got.Rows) != rowsString(want) {
					kind := "wrong-tree"
					if single == 1 {
						for _, n := range present {
							if n == el {
								kind = "directly-logged-element-not-counted"
							}
						}
					}
					viol(kind, "expected rows:\n"+rowsString(want))
					return
				}
			} else {
				// collapse modes: every printed row carries the prefix sum of its full path, no path twice, siblings sorted
				seen := map[string]bool{}
				for i, rw := range got.Rows {
					if seen[rw.Path] {
						viol("path-printed-twice", "path "+rw.Path+" printed twice")
						return
					}
					seen[rw.Path] = true
					if pf {
						if s, ok := sums[rw.Path]; !ok || s != rw.Amount {
							viol("wrong-amount", fmt.Sprintf("row %q (path %s) shows %s, the foods at or below it sum to %s", rw.Label, rw.Path, rw.Amount, s))
							return
						}
					} else {
						// a food may be a category of another food (coffee and coffee/latte): a joined row stands for everything
						// at or below its FIRST segment, so that the rows of a level still add up to the level above
						head := strings.TrimSuffix(rw.Path, rw.Label) + strings.SplitN(rw.Label, "/", 2)[0]
						if s, ok := sums[head]; ok && s != rw.Amount {
							viol("wrong-amount", fmt.Sprintf("row %q shows %s, the foods at or below %s sum to %s", rw.Label, rw.Amount, head, s))
							return
						}
					}
					for j := i - 1; j >= 0; j-- {
						if got.Rows[j].Level < rw.Level {
							break
						}
						if got.Rows[j].Level == rw.Level {
							// siblings are sorted by their NAME (the first segment of a joined label), not by the label text:
							// "a/x" comes before "a b/y" although '/' sorts after ' '
							if !(strings.SplitN(got.Rows[j].Label, "/", 2)[0] < strings.SplitN(rw.Label, "/", 2)[0]) {
								viol("siblings-unsorted", fmt.Sprintf("siblings %q, %q out of order", got.Rows[j].Label, rw.Label))
								return
							}
							break
						}
					}
				}
				if pf {
					// same leaf paths with the same amounts as the foods themselves; no branch dropped
					leaves := map[string]string{}
					for i, rw := range got.Rows {
						if i+1 < len(got.Rows) && got.Rows[i+1].Level > rw.Level {
							continue
						}
						leaves[rw.Path] = rw.Amount
					}
					for _, n := range present {
						a, ok := leaves[n]
						if !ok {
							viol("branch-dropped", "food "+n+" is not shown as a leaf; leaves: "+fmt.Sprint(leaves))
							return
						}
						if a != f2(amounts[n]) {
							viol("wrong-leaf-amount", fmt.Sprintf("leaf %s shows %s, expected %s", n, a, f2(amounts[n])))
							return
						}
					}
					if len(leaves) != len(present) {
						viol("extra-leaf", fmt.Sprintf("leaves %v, foods %v", leaves, present))
						return
					}
				}
			}
			if single == 1 {
				if !got.HasTotal {
					viol("no-grand-total", "no grand total printed")
					return
				}
				top := new(big.Rat)
				for _, rw := range want {
					if rw.Level == 0 {
						v, _ := new(big.Rat).SetString(rw.Amount)
						top.Add(top, v)
					}
				}
				if got.Total != f2(wantTotal) || got.TotalEl != el {
					viol("wrong-grand-total", fmt.Sprintf("grand total %s %s, expected %s "+el+" (sum of top-level rows %s)", got.Total, got.TotalEl, f2(wantTotal), f2(top)))
				}
			} else if got.HasTotal {
				viol("unexpected-grand-total", "grand total printed without -s")
			}
			if x.w.Executions%1499 == 0 {
				x.w.conform(c, r)
			}
		}
	}
	// every special scenario whose amounts are exact (harness/specials.go): all foods and the elements cal and fat
	var c03Specials []specialScenario
	for _, sc := range specialsFor(w.Tier) {
		if sc.Exact && sc.Name != "repeated-heading-in-the-book" {
			c03Specials = append(c03Specials, sc)
		}
	}
	w.Explore("special-scenarios", ExploreOpts{ShardDepth: 3}, func(x *Exec) {
		mode := x.Choose(len(balModes), "input:mode")
		which := x.Choose(3, "input:single") // all foods, -s cal, -s fat
		sc := c03Specials[x.Choose(len(c03Specials), "input:scenario")]
		var names []string
		qty := map[string]*big.Rat{}
		for _, d := range sc.Log {
			for _, e := range d.Entries {
				if qty[e.Name] == nil {
					qty[e.Name] = new(big.Rat)
					names = append(names, e.Name)
				}
				qty[e.Name].Add(qty[e.Name], rat(e.Val))
			}
		}
		balCheck(x, mode, btoi(which > 0), 0, []string{"", "cal", "fat"}[which], sc.Book, sc.Log, names, qty)
	})
	// a tree whose report crosses the 4096-byte output buffer: all 120 paths of depth <= 4 over 3 segments minus
	// every third (so that chains, forks and leaves of every kind occur), exotic segment names included
	uniBig := pathUniverse([]string{"a&b", "c d", "ел"}, 4)
	w.Explore("large-tree", ExploreOpts{ShardDepth: 3}, body(uniBig, func(x *Exec) []int {
		var idxs []int
		drop := x.Choose(3, "input:dropped-residue")
		limit := 40 + x.Choose(2, "input:size")*80
		for i := range uniBig {
			if i%3 != drop && i < limit {
				idxs = append(idxs, i)
			}
		}
		return idxs
	}, 2))
	// names with empty path segments: "a/", "/a", "a//a", "/", "//" ... ("coffee/" and "coffee/cup" are siblings below
	// "coffee", not a food and its sub-category)
	var uniE []string
	for n := 1; n <= 3; n++ {
		for m := 0; m < 1<<uint(n); m++ {
			segs := make([]string, n)
			for k := range segs {
				if m&(1<<uint(k)) != 0 {
					segs[k] = "a"
				}
			}
			if p := strings.Join(segs, "/"); p != "" {
				uniE = append(uniE, p) // 13 names: a, /, /a, a/, a/a, //, a//, /a/, ...
			}
		}
	}
	w.Explore("subsets-with-empty-segments", ExploreOpts{ShardDepth: 9}, body(uniE, func(x *Exec) []int {
		var idxs []int
		for i := range uniE {
			if x.Choose(2, "input:member") == 1 {
				idxs = append(idxs, i)
			}
		}
		return idxs
	}, 2))
	// sibling names of which one is a prefix of the other, continued by a byte on either side of '/' in the byte order
	// (space, '-', '.' sort below the separator, '0' and letters above): siblings are sorted by NAME, not by path text
	uniP := pathUniverse([]string{"a", "a-b", "a b", "a.b", "a0"}, 2) // 30 paths
	w.Explore("sets-le3-prefix-siblings", ExploreOpts{ShardDepth: 5}, body(uniP, func(x *Exec) []int {
		var idxs []int
		n := x.Choose(4, "input:size")
		lo := 0
		for k := 0; k < n; k++ {
			remaining := n - k - 1
			hi := len(uniP) - remaining
			if hi <= lo {
				break
			}
			pick := lo + x.Choose(hi-lo, "input:member")
			idxs = append(idxs, pick)
			lo = pick + 1
		}
		return idxs
	}, 2))
	uni2 := pathUniverse([]string{"a", "b"}, 3) // 14 paths
	if w.Tier == "quick" {
		w.Explore("subsets-ab-depth3", ExploreOpts{ShardDepth: 9}, body(uni2, func(x *Exec) []int {
			var idxs []int
			for i := range uni2 {
				if x.Choose(2, "input:member") == 1 {
					idxs = append(idxs, i)
				}
			}
			return idxs
		}, 3))
		return
	}
	w.Explore("subsets-ab-depth3", ExploreOpts{ShardDepth: 9}, body(uni2, func(x *Exec) []int {
		var idxs []int
		for i := range uni2 {
			if x.Choose(2, "input:member") == 1 {
				idxs = append(idxs, i)
			}
		}
		return idxs
	}, 3))
	// sets of at most four names over segments {a, empty} up to depth 4 (29 names)
	var uniE4 []string
	for n := 1; n <= 4; n++ {
		for m := 0; m < 1<<uint(n); m++ {
			segs := make([]string, n)
			for k := range segs {
				if m&(1<<uint(k)) != 0 {
					segs[k] = "a"
				}
			}
			if p := strings.Join(segs, "/"); p != "" {
				uniE4 = append(uniE4, p)
			}
		}
	}
	w.Explore("sets-le4-empty-segments-depth4", ExploreOpts{ShardDepth: 5}, body(uniE4, func(x *Exec) []int {
		var idxs []int
		n := x.Choose(5, "input:size")
		lo := 0
		for k := 0; k < n; k++ {
			remaining := n - k - 1
			hi := len(uniE4) - remaining
			if hi <= lo {
				break
			}
			pick := lo + x.Choose(hi-lo, "input:member")
			idxs = append(idxs, pick)
			lo = pick + 1
		}
		return idxs
	}, 3))
	uni3 := pathUniverse([]string{"a", "b", "c"}, 3) // 39 paths
	w.Explore("sets-le4-abc-depth3", ExploreOpts{ShardDepth: 5}, body(uni3, func(x *Exec) []int {
		var idxs []int
		n := x.Choose(5, "input:size")
		lo := 0
		for k := 0; k < n; k++ {
			remaining := n - k - 1
			hi := len(uni3) - remaining
			if hi <= lo {
				break
			}
			pick := lo + x.Choose(hi-lo, "input:member")
			idxs = append(idxs, pick)
			lo = pick + 1
		}
		return idxs
	}, 3))
}
