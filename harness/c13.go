package main

import (
	"fmt"
	"math/big"
	"regexp"
	"sort"
	"strings"
)

func init() { propChecks["C13"] = checkC13 }

var c13Names = append(append([]string{}, genNames...), `he said "hi" twice`, `a,"b",c`, `semi;colon`, `ünïcödé`, `bread 🍞`, `o'neil`, `x	y`, `орех`, `voilà`) // (the last two end in bytes 0x85 and 0xA0)
var c13Qty = []string{"-1", "0.5", "1e-7", "0.0005", "2.675", "1.005", "123456789.125", "1e15", "-0.004", "0.0015", "-2.5e-4", "7", "94.05090880450125", "9007199254740993"}

var amt3Re = regexp.MustCompile(`^-?[0-9]+\.[0-9]{3}$`)
var amt2Re = regexp.MustCompile(`^-?[0-9]+\.[0-9]{2}$`)
var isoDateRe = regexp.MustCompile(`^[0-9]{4}-[0-9]{2}-[0-9]{2}$`)

func exactDec(lit string) *big.Rat {
	r, ok := new(big.Rat).SetString(lit)
	if !ok {
		hfail("bad literal %q", lit)
	}
	return r
}

// withinHalfUnit: |printed - truth| <= half a unit of the last printed digit (plus the float64 representation error of truth).
func withinHalfUnit(printed string, truth *big.Rat, decimals int) bool {
	p, ok := new(big.Rat).SetString(printed)
	if !ok {
		return false
	}
	diff := new(big.Rat).Sub(p, truth)
	diff.Abs(diff)
	half := new(big.Rat).SetFrac64(5, 1)
	for i := 0; i <= decimals; i++ {
		half.Quo(half, new(big.Rat).SetInt64(10))
	}
	// float64 carries ~16 significant digits: allow 2^-50 relative slack on the true value
	slack := new(big.Rat).Abs(truth)
	slack.Quo(slack, new(big.Rat).SetInt(new(big.Int).Lsh(big.NewInt(1), 50)))
	return diff.Cmp(new(big.Rat).Add(half, slack)) <= 0
}

type csvWant struct {
	A, B  string
	Truth *big.Rat
}

func checkC13(w *Worker) {
	w.appInit()
	slowSink := false
	verify := func(x *Exec, c appCase, want []csvWant, decimals int, what string) {
		var r AppRun
		if slowSink {
			// the same command through the CmdUtils seam, writing to a sink in which every write is a scheduling point
			r = runCU(cuCase{Args: c.Args, Files: c.Files})
			logRun(c, r)
		} else {
			r = runApp(c)
		}
		x.Obs(r.Key())
		x.Sample(map[string]interface{}{"cmd": c.shell(), "stdout": r.Stdout})
		rep := map[string]interface{}{"cmd": c.shell(), "observed": r.String()}
		if r.Failed || r.Panic != "" {
			x.Violate("C13|"+what+"|failed", fmt.Sprintf("`%s`: %s", c.shell(), r.String()), rep)
			return
		}
		recs, err := parseCSV(r.Stdout)
		if err != nil {
			x.Violate("C13|"+what+"|not-rfc4180", fmt.Sprintf("`%s`: %v\n%q", c.shell(), err, r.Stdout), rep)
			return
		}
		if len(recs) != len(want) {
			x.Violate("C13|"+what+"|wrong-row-count", fmt.Sprintf("`%s`: %d rows, expected %d\n%s", c.shell(), len(recs), len(want), r.Stdout), rep)
			return
		}
		re := amt2Re
		if decimals == 3 {
			re = amt3Re
		}
		for i, rec := range recs {
			wnt := want[i]
			if len(rec) != 3 {
				x.Violate("C13|"+what+"|wrong-field-count", fmt.Sprintf("`%s`: row %d has %d fields: %q", c.shell(), i+1, len(rec), rec), rep)
				return
			}
			if rec[0] != wnt.A || rec[1] != wnt.B {
				x.Violate("C13|"+what+"|names-or-order-differ", fmt.Sprintf("`%s`: row %d is (%q,%q), expected (%q,%q)\n%s", c.shell(), i+1, rec[0], rec[1], wnt.A, wnt.B, r.Stdout), rep)
				return
			}
			if what == "log" && !isoDateRe.MatchString(rec[0]) {
				x.Violate("C13|log|date-not-iso", fmt.Sprintf("`%s`: date %q", c.shell(), rec[0]), rep)
				return
			}
			if !re.MatchString(rec[2]) {
				x.Violate("C13|"+what+"|amount-format", fmt.Sprintf("`%s`: amount %q is not fixed precision with %d decimals", c.shell(), rec[2], decimals), rep)
				return
			}
			if !withinHalfUnit(rec[2], wnt.Truth, decimals) {
				x.Violate("C13|"+what+"|amount-off", fmt.Sprintf("`%s`: row %d amount %s, true value %s", c.shell(), i+1, rec[2], wnt.Truth.FloatString(12)), rep)
				return
			}
		}
	}
	w.Explore("csv-log", ExploreOpts{ShardDepth: 2}, func(x *Exec) {
		n1 := c13Names[x.Choose(len(c13Names), "input:name1")]
		n2 := c13Names[x.Choose(len(c13Names), "input:name2")]
		q := c13Qty[x.Choose(len(c13Qty), "input:qty")]
		x.Case(n1+"|"+n2+"|"+q, true)
		var sb strings.Builder
		var want []csvWant
		sb.WriteString("2021/01/24:\n  " + n1 + ": " + q + "\n")
		want = append(want, csvWant{"2021-01-24", n1, exactDec(q)})
		if n2 != n1 {
			sb.WriteString("  " + n2 + ": 0.5\n  " + n1 + ": 0.25\n  " + n2 + ": -2\n") // duplicates merge, first-appearance order
			want[0].Truth = new(big.Rat).Add(want[0].Truth, exactDec("0.25"))
			want = append(want, csvWant{"2021-01-24", n2, exactDec("-1.5")})
			if strings.HasPrefix(q, "1e15") || strings.HasPrefix(q, "123456789") {
				// a float64 cannot hold 1e15 + 0.25 to three decimals... it can (spacing 0.125); keep
			}
		}
		sb.WriteString("2019/12/31:\n  " + n2 + ": 3\n2021/01/24:\n  " + n1 + ": 1\n")
		want = append(want, csvWant{"2019-12-31", n2, exactDec("3")}, csvWant{"2021-01-24", n1, exactDec("1")})
		verify(x, appCase{Args: []string{"csv", "log"}, Files: map[string]string{"food.yaml": "", "log.yaml": sb.String()}}, want, 3, "log")
	})
	// exports that cross the 4096-byte output buffer and the scanner's input buffer many times
	w.Explore("large-exports", ExploreOpts{ShardDepth: 2}, func(x *Exec) {
		which := x.Choose(3, "input:export")
		n := []int{200, 1500}[x.Choose(2, "input:rows")]
		c, want, dec := c13Large(which, n)
		x.Case(fmt.Sprint("large", which, n), true)
		verify(x, c, want, dec, []string{"log", "database", "database-resolved"}[which])
	})
	// exports of 60..250 KiB into a slow sink (a pipe nobody reads yet, a terminal): if the export is written by a goroutine
	// of its own, the formatter runs on while a write is in progress (one departure from the default schedule)
	w.Explore("large-exports-to-a-slow-sink", ExploreOpts{ShardDepth: 2, Budgets: map[string]int{"appsched": 1}}, func(x *Exec) {
		which := x.Choose(3, "input:export")
		n := []int{1500, 3000, 6000}[x.Choose(3, "input:rows")]
		// through the program's own option loader and standard output, or through the CmdUtils seam into the harness's sink
		slowSink = x.Choose(2, "input:driver") == 1
		defer func() { slowSink = false }()
		c, want, dec := c13Large(which, n)
		x.Case(fmt.Sprint("slow", which, n), true)
		verify(x, c, want, dec, []string{"log", "database", "database-resolved"}[which])
	})
	// a heading that occurs more than once in the book - directly below itself, with another recipe in between, three times:
	// the raw export has one row per entry of the file, in file order; the resolved export has every pair once
	w.Explore("repeated-headings", ExploreOpts{ShardDepth: 2}, func(x *Exec) {
		shape := x.Choose(4, "input:shape")
		resolved := x.Choose(2, "input:export") == 1
		book := [][]absRecipe{
			{{"soup", []absIng{{"salt", 1}}}, {"soup", []absIng{{"water", 2}, {"salt", 3}}}, {"bread", []absIng{{"flour", 4}}}},
			{{"soup", []absIng{{"salt", 1}}}, {"bread", []absIng{{"flour", 4}, {"soup", 2}}}, {"soup", []absIng{{"water", 2}, {"salt", 3}}}},
			{{"soup", []absIng{{"salt", 1}}}, {"bread", []absIng{{"flour", 4}}}, {"soup", []absIng{{"water", 2}}}, {"apple", []absIng{{"cal", 1}}}, {"soup", []absIng{{"salt", 5}, {"water", 1}}}},
			{{"a, \"b\" c", []absIng{{"x", 1}}}, {"z", []absIng{{"a, \"b\" c", 2}}}, {"a, \"b\" c", []absIng{{"y", 2}}}, {"z", []absIng{{"x", 1}}}},
		}[shape]
		files := map[string]string{"food.yaml": renderBook(absBook(book))}
		x.Case(fmt.Sprint("repeated", shape, resolved), true)
		if resolved {
			c13UniqueResolvedRows(x, appCase{Args: []string{"csv", "database-resolved"}, Files: files})
			return
		}
		var want []csvWant
		for _, r := range book {
			for _, i := range r.Ings {
				want = append(want, csvWant{r.Name, i.Name, rat(i.Val)})
			}
		}
		verify(x, appCase{Args: []string{"csv", "database"}, Files: files}, want, 2, "database")
	})
	// calendar: every day around every turn of the year 2018..2027 (ISO week-years differ from calendar years there), the
	// ends of February, and far-away years; one row per day, dates ISO formatted
	w.Explore("csv-log-calendar", ExploreOpts{ShardDepth: 1}, func(x *Exec) {
		order := x.Choose(3, "input:order") // as listed, reversed, the zero date 0001/01/01 first
		var days []string
		for y := 2018; y <= 2027; y++ {
			for d := 24; d <= 31; d++ {
				days = append(days, fmt.Sprintf("%04d/12/%02d", y, d))
			}
			for d := 1; d <= 8; d++ {
				days = append(days, fmt.Sprintf("%04d/01/%02d", y+1, d))
			}
			days = append(days, fmt.Sprintf("%04d/02/28", y), fmt.Sprintf("%04d/03/01", y))
			if y%4 == 0 {
				days = append(days, fmt.Sprintf("%04d/02/29", y))
			}
		}
		if x.w.Tier == "thorough" {
			// every day of fifteen years
			days = nil
			for n := dayNumber("2016/01/01"); n <= dayNumber("2030/12/31"); n++ {
				days = append(days, c13FromDayNumber(n))
			}
		}
		days = append(days, "1970/01/01", "1969/12/31", "1900/02/28", "2000/02/29", "2100/03/01", "0001/01/01", "9999/12/31", "1582/10/10")
		if order == 1 {
			for l, r := 0, len(days)-1; l < r; l, r = l+1, r-1 {
				days[l], days[r] = days[r], days[l]
			}
		}
		if order == 2 {
			days = append([]string{"0001/01/01", "0001/01/01", "0001/01/02"}, days...)
		}
		var sb strings.Builder
		var want []csvWant
		for i, d := range days {
			sb.WriteString(fmt.Sprintf("%s:\n  food %d: %d\n", d, i%7, i+1))
			want = append(want, csvWant{strings.ReplaceAll(d, "/", "-"), fmt.Sprintf("food %d", i%7), exactDec(fmt.Sprint(i + 1))})
		}
		x.Case(fmt.Sprint("calendar", order), true)
		verify(x, appCase{Args: []string{"csv", "log"}, Files: map[string]string{"food.yaml": "", "log.yaml": sb.String()}}, want, 3, "log")
	})
	// fields longer than the 4096-byte buffers, with characters that need quoting
	w.Explore("csv-very-long-names", ExploreOpts{ShardDepth: 1}, func(x *Exec) {
		which := x.Choose(3, "input:export")
		long1 := strings.Repeat("long, \"quoted\" name ", 300) + "end"
		long2 := "z" + strings.Repeat("ü", 4100)
		var c appCase
		var want []csvWant
		dec := 3
		switch which {
		case 0:
			c = appCase{Args: []string{"csv", "log"}, Files: map[string]string{"food.yaml": "", "log.yaml": "2021/01/24:\n  " + long1 + ": 1.5\n  short: 2\n  " + long2 + ": -1\n  " + long1 + ": 1\n"}}
			want = []csvWant{{"2021-01-24", long1, exactDec("2.5")}, {"2021-01-24", "short", exactDec("2")}, {"2021-01-24", long2, exactDec("-1")}}
		case 1:
			dec = 2
			c = appCase{Args: []string{"csv", "database"}, Files: map[string]string{"food.yaml": long1 + ":\n  " + long2 + ": 1.5\n  cal: 2\nshort:\n  " + long1 + ": 1\n"}}
			want = []csvWant{{long1, long2, exactDec("1.5")}, {long1, "cal", exactDec("2")}, {"short", long1, exactDec("1")}}
		default:
			dec = 2
			c = appCase{Args: []string{"csv", "database-resolved"}, Files: map[string]string{"food.yaml": long1 + ":\n  " + long2 + ": 1.5\n  cal: 2\nshort:\n  " + long1 + ": 2\n"}}
			want = []csvWant{{long1, "cal", exactDec("2")}, {long1, long2, exactDec("1.5")}, {"short", "cal", exactDec("4")}, {"short", long2, exactDec("3")}}
		}
		x.Case(fmt.Sprint("long-names", which), true)
		verify(x, c, want, dec, []string{"log", "database", "database-resolved"}[which])
	})
	// every special scenario whose amounts are exact (harness/specials.go) through the three exports
	var c13Specials []specialScenario
	for _, sc := range specialsFor(w.Tier) {
		if sc.Exact {
			c13Specials = append(c13Specials, sc)
		}
	}
	w.Explore("special-scenarios", ExploreOpts{ShardDepth: 2}, func(x *Exec) {
		sc := c13Specials[x.Choose(len(c13Specials), "input:scenario")]
		which := x.Choose(3, "input:export")
		var want []csvWant
		files := map[string]string{"food.yaml": renderBook(sc.Book), "log.yaml": renderLog(sc.Log)}
		switch which {
		case 0:
			for _, d := range sc.Log {
				var order []string
				sum := map[string]*big.Rat{}
				for _, e := range d.Entries {
					if sum[e.Name] == nil {
						sum[e.Name] = new(big.Rat)
						order = append(order, e.Name)
					}
					sum[e.Name].Add(sum[e.Name], rat(e.Val))
				}
				for _, n := range order {
					want = append(want, csvWant{strings.ReplaceAll(d.Date, "/", "-"), n, sum[n]})
				}
			}
			verify(x, appCase{Args: []string{"csv", "log"}, Files: files}, want, 3, "log")
		case 1:
			for _, r := range sc.Book {
				for _, i := range r.Ings {
					want = append(want, csvWant{r.Name, i.Name, rat(i.Val)})
				}
			}
			verify(x, appCase{Args: []string{"csv", "database"}, Files: files}, want, 2, "database")
		default:
			if sc.Name == "repeated-heading-in-the-book" {
				// which of two definitions counts is not C13's business; that a recipe has ONE set of rows is
				c13UniqueResolvedRows(x, appCase{Args: []string{"csv", "database-resolved"}, Files: files})
				return
			}
			res := refResolve(sc.Book)
			var names []string
			for n := range res {
				names = append(names, n)
			}
			sort.Strings(names)
			for _, n := range names {
				for _, e := range sortedKeys(res[n]) {
					want = append(want, csvWant{n, e, res[n][e]})
				}
			}
			verify(x, appCase{Args: []string{"csv", "database-resolved"}, Files: files}, want, 2, "database-resolved")
		}
		x.Case(fmt.Sprint(sc.Name, which), true)
	})
	w.Explore("csv-log-wide-days", ExploreOpts{ShardDepth: 2}, func(x *Exec) {
		D := []int{8, 9, 10, 16, 17, 33}[x.Choose(6, "input:distinct-foods")]
		rep := []int{0, 3, 7, 8}[x.Choose(4, "input:repeated-food")]
		var sb strings.Builder
		sb.WriteString("2021/01/24:\n")
		want := []csvWant{}
		for j := 0; j < D; j++ {
			nm := fmt.Sprintf("%s %d", c13Names[j%len(c13Names)], j)
			sb.WriteString(fmt.Sprintf("  %s: %d\n", nm, j+1))
			want = append(want, csvWant{"2021-01-24", nm, exactDec(fmt.Sprint(j + 1))})
		}
		if rep < D {
			sb.WriteString(fmt.Sprintf("  %s: 0.5\n", want[rep].B))
			want[rep].Truth = new(big.Rat).Add(want[rep].Truth, exactDec("0.5"))
		}
		sb.WriteString(fmt.Sprintf("  %s: 0.25\n", want[0].B))
		want[0].Truth = new(big.Rat).Add(want[0].Truth, exactDec("0.25"))
		x.Case(fmt.Sprint("wide", D, rep), true)
		verify(x, appCase{Args: []string{"csv", "log"}, Files: map[string]string{"food.yaml": "", "log.yaml": sb.String()}}, want, 3, "log")
	})
	if w.Tier == "thorough" {
		// all triples of names in one day (first-appearance order, merging, quoting of neighbours)
		w.Explore("csv-log-name-triples", ExploreOpts{ShardDepth: 3}, func(x *Exec) {
			n1 := c13Names[x.Choose(len(c13Names), "input:name1")]
			n2 := c13Names[x.Choose(len(c13Names), "input:name2")]
			n3 := c13Names[x.Choose(len(c13Names), "input:name3")]
			if n1 == n2 || n2 == n3 || n1 == n3 {
				x.Case("skip-equal", false)
				return
			}
			q := c13Qty[x.Choose(len(c13Qty), "input:qty")]
			log := "2021/01/24:\n  " + n1 + ": " + q + "\n  " + n2 + ": 1\n  " + n3 + ": -1\n  " + n2 + ": 0.5\n"
			want := []csvWant{{"2021-01-24", n1, exactDec(q)}, {"2021-01-24", n2, exactDec("1.5")}, {"2021-01-24", n3, exactDec("-1")}}
			x.Case(n1+"|"+n2+"|"+n3+"|"+q, true)
			verify(x, appCase{Args: []string{"csv", "log"}, Files: map[string]string{"food.yaml": "", "log.yaml": log}}, want, 3, "log")
		})
	}
	w.Explore("csv-database", ExploreOpts{ShardDepth: 2}, func(x *Exec) {
		n1 := c13Names[x.Choose(len(c13Names), "input:recipe")]
		n2 := c13Names[x.Choose(len(c13Names), "input:element")]
		q := c13Qty[x.Choose(len(c13Qty), "input:qty")]
		x.Case(n1+"|"+n2+"|"+q, true)
		// (the last heading repeats the first one: the raw export is per entry in file order, not per distinct recipe)
		book := "zz:\n  " + n2 + ": 1\n" + n1 + ":\n  # barcode: 12\n  " + n2 + ": " + q + "\n  cal: 2\n  " + n2 + ": 1\nempty:\nzz:\n  cal: 3\n"
		want := []csvWant{{"zz", n2, exactDec("1")}, {n1, n2, exactDec(q)}, {n1, "cal", exactDec("2")}, {n1, n2, exactDec("1")}, {"zz", "cal", exactDec("3")}}
		verify(x, appCase{Args: []string{"csv", "database"}, Files: map[string]string{"food.yaml": book}}, want, 2, "database")
	})
	// book shapes: two foods over every subset of three elements (listed in either order), a recipe made of any
	// sequence of {food A, food B, a plain element}, optionally used by a further recipe; rows sorted by recipe, then element
	w.Explore("csv-resolved-book-shapes", ExploreOpts{ShardDepth: 3}, func(x *Exec) {
		els := []string{"protein", "calories", "fat, \"sat\" x"} // (not ending in a quote: the tokenizer trims those, see 9.4)
		sa := 1 + x.Choose(7, "input:elements-of-a")
		sb := 1 + x.Choose(7, "input:elements-of-b")
		rev := x.Choose(2, "input:element-order")
		seqs := [][]string{{"a"}, {"b"}, {"salt"}, {"a", "b"}, {"b", "a"}, {"a", "salt"}, {"salt", "a"}, {"b", "salt"}, {"salt", "b"},
			{"a", "b", "salt"}, {"a", "salt", "b"}, {"b", "a", "salt"}, {"b", "salt", "a"}, {"salt", "a", "b"}, {"salt", "b", "a"}, {"a", "b", "a"}}
		seq := seqs[x.Choose(len(seqs), "input:ingredients")]
		names := [][2]string{{"toast", "none"}, {"0 first", "none"}, {"toast", "zz menu"}, {"toast", "Ab menu"}}[x.Choose(4, "input:recipe-names")]
		leaf := func(mask int, scale int64) (string, map[string]*big.Rat) {
			m := map[string]*big.Rat{}
			text := ""
			for k := 0; k < 3; k++ {
				i := k
				if rev == 1 {
					i = 2 - k
				}
				if mask&(1<<uint(i)) != 0 {
					v := big.NewRat(scale*int64(i+1), 4)
					m[els[i]] = v
					text += "  " + els[i] + ": " + v.FloatString(2) + "\n"
				}
			}
			return text, m
		}
		ta, ma := leaf(sa, 1)
		tb, mb := leaf(sb, 8)
		resolved := map[string]map[string]*big.Rat{"a": ma, "b": mb}
		book := "b:\n" + tb
		top := map[string]*big.Rat{}
		book += names[0] + ":\n"
		for i, ing := range seq {
			q := big.NewRat(int64(i+1), 2)
			book += "  " + ing + ": " + q.FloatString(1) + "\n"
			if sub, ok := resolved[ing]; ok {
				for e, v := range sub {
					if top[e] == nil {
						top[e] = new(big.Rat)
					}
					top[e].Add(top[e], new(big.Rat).Mul(q, v))
				}
			} else {
				if top[ing] == nil {
					top[ing] = new(big.Rat)
				}
				top[ing].Add(top[ing], q)
			}
		}
		resolved[names[0]] = top
		book += "a:\n" + ta
		if names[1] != "none" {
			book = names[1] + ":\n  " + names[0] + ": 2\n  b: 1\n" + book
			menu := map[string]*big.Rat{}
			for e, v := range top {
				menu[e] = new(big.Rat).Mul(v, big.NewRat(2, 1))
			}
			for e, v := range mb {
				if menu[e] == nil {
					menu[e] = new(big.Rat)
				}
				menu[e].Add(menu[e], v)
			}
			resolved[names[1]] = menu
		}
		var want []csvWant
		recipes := []string{}
		for rn := range resolved {
			recipes = append(recipes, rn)
		}
		sort.Strings(recipes)
		for _, rn := range recipes {
			es := []string{}
			for e := range resolved[rn] {
				es = append(es, e)
			}
			sort.Strings(es)
			for _, e := range es {
				want = append(want, csvWant{rn, e, resolved[rn][e]})
			}
		}
		x.Case(book, len(seq) > 1)
		verify(x, appCase{Args: []string{"csv", "database-resolved"}, Files: map[string]string{"food.yaml": book}}, want, 2, "database-resolved")
	})
	w.Explore("csv-database-resolved", ExploreOpts{ShardDepth: 2}, func(x *Exec) {
		n1 := c13Names[x.Choose(len(c13Names), "input:recipe")]
		n2 := c13Names[x.Choose(len(c13Names), "input:element")]
		q := c13Qty[x.Choose(len(c13Qty), "input:qty")]
		outer := []string{"zz top", "A first", "мусака"}[x.Choose(3, "input:outer")]
		if n1 == n2 {
			x.Case("skip", false)
			return
		}
		x.Case(n1+"|"+n2+"|"+q+"|"+outer, true)
		// outer: 2 x n1 + 1 x n2 + 3 plain ; n1: q x n2 + 2 plain + 1 x n2
		book := outer + ":\n  " + n1 + ": 2\n  " + n2 + ": 1\n  plain: 3\n" + n1 + ":\n  " + n2 + ": " + q + "\n  plain: 2\n  " + n2 + ": 1\n"
		qn := new(big.Rat).Add(exactDec(q), exactDec("1"))
		rows := map[string]map[string]*big.Rat{
			n1:    {n2: qn, "plain": exactDec("2")},
			outer: {n2: new(big.Rat).Add(new(big.Rat).Mul(exactDec("2"), qn), exactDec("1")), "plain": exactDec("7")},
		}
		var want []csvWant
		recipes := []string{n1, outer}
		sort.Strings(recipes)
		for _, rn := range recipes {
			els := []string{}
			for e := range rows[rn] {
				els = append(els, e)
			}
			sort.Strings(els)
			for _, e := range els {
				want = append(want, csvWant{rn, e, rows[rn][e]})
			}
		}
		verify(x, appCase{Args: []string{"csv", "database-resolved"}, Files: map[string]string{"food.yaml": book}}, want, 2, "database-resolved")
	})
}

// c13FromDayNumber: inverse of dayNumber (integer arithmetic only).
func c13FromDayNumber(n int) string {
	a := n + 32044
	b := (4*a + 3) / 146097
	c := a - 146097*b/4
	d := (4*c + 3) / 1461
	e := c - 1461*d/4
	m := (5*e + 2) / 153
	return fmt.Sprintf("%04d/%02d/%02d", 100*b+d-4800+m/10, m+3-12*(m/10), e-(153*m+2)/5+1)
}

// c13Large: a log of n days (export 0) or a book of n recipes (exports 1, 2) and the rows expected
func c13Large(which, n int) (appCase, []csvWant, int) {
	var sb strings.Builder
	var want []csvWant
	dec := 3
	var c appCase
	switch which {
	case 0:
		for d := 0; d < n; d++ {
			date := fmt.Sprintf("20%02d/%02d/%02d", 21+d/336, 1+(d/28)%12, 1+d%28)
			nm := c13Names[d%len(c13Names)] + fmt.Sprint(" ", d)
			sb.WriteString(date + ":\n  " + nm + ": " + fmt.Sprint(d) + ".125\n")
			want = append(want, csvWant{strings.ReplaceAll(date, "/", "-"), nm, exactDec(fmt.Sprint(d) + ".125")})
		}
		c = appCase{Args: []string{"csv", "log"}, Files: map[string]string{"food.yaml": "", "log.yaml": sb.String()}}
	default:
		dec = 2
		for d := 0; d < n; d++ {
			nm := fmt.Sprintf("%06d %s", d, c13Names[d%len(c13Names)])
			sb.WriteString(nm + ":\n  zeta: " + fmt.Sprint(d) + ".5\n  alpha: -1\n")
			if which == 1 {
				want = append(want, csvWant{nm, "zeta", exactDec(fmt.Sprint(d) + ".5")}, csvWant{nm, "alpha", exactDec("-1")})
			} else {
				want = append(want, csvWant{nm, "alpha", exactDec("-1")}, csvWant{nm, "zeta", exactDec(fmt.Sprint(d) + ".5")})
			}
		}
		cmd := "database"
		if which == 2 {
			cmd = "database-resolved"
		}
		c = appCase{Args: []string{"csv", cmd}, Files: map[string]string{"food.yaml": sb.String()}}
	}
	return c, want, dec
}

// c13UniqueResolvedRows: the resolved export is well-formed, sorted by recipe then element, and holds every
// (recipe, element) pair once - whatever the book looks like
func c13UniqueResolvedRows(x *Exec, c appCase) {
	r := runApp(c)
	x.Obs(r.Key())
	rep := map[string]interface{}{"cmd": c.shell(), "observed": r.String()}
	if r.Failed || r.Panic != "" {
		x.Violate("C13|database-resolved|failed", fmt.Sprintf("`%s`: %s", c.shell(), r.String()), rep)
		return
	}
	recs, err := parseCSV(r.Stdout)
	if err != nil {
		x.Violate("C13|database-resolved|not-rfc4180", fmt.Sprintf("`%s`: %v", c.shell(), err), rep)
		return
	}
	prev := ""
	for i, rec := range recs {
		if len(rec) != 3 {
			x.Violate("C13|database-resolved|wrong-field-count", fmt.Sprintf("`%s`: row %d: %q", c.shell(), i+1, rec), rep)
			return
		}
		key := rec[0] + "\x00" + rec[1]
		if i > 0 && !(prev < key) {
			x.Violate("C13|database-resolved|row-twice-or-out-of-order", fmt.Sprintf("`%s`: row %d (%q, %q) repeats or precedes the row before it\n%s", c.shell(), i+1, rec[0], rec[1], r.Stdout), rep)
			return
		}
		prev = key
	}
}
