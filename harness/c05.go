package main

import (
	"fmt"
	"os"
	"strings"

	"github.com/aquilax/hranoprovod-cli/v3/verifshim"
)

func init() { propChecks["C05"] = checkC05 }

type c05Input struct {
	Name  string
	Book  string
	Log   string
	Extra []string // global flags
}

func c05Inputs() []c05Input {
	var out []c05Input
	for mask := 0; mask < 16; mask++ {
		ties, unres, days3, deep := mask&1 != 0, mask&2 != 0, mask&4 != 0, mask&8 != 0
		book := absBook{
			{"r1", []absIng{{"cal", 2}, {"fat", 1}}},
			{"r2", []absIng{{"cal", 2}, {"fat", 3}, {"prot", 1}}},
			{"r3", []absIng{{"r1", 1}, {"prot", 1}}},
		}
		if !ties {
			book[1].Ings[0].Val = 5
			book[2].Ings[0].Val = 3
		}
		var extra []string
		if deep {
			book = append(book, absRecipe{"d1", []absIng{{"d2", 1}}}, absRecipe{"d2", []absIng{{"d3", 1}}}, absRecipe{"d3", []absIng{{"cal", 1}}})
			extra = []string{"--maxdepth", "3"} // d1's chain is exactly 3 references long: rejected, on every order
			if ties {
				extra = []string{"--maxdepth", "4"} // accepted
			}
		}
		q2 := 2.0
		if !ties {
			q2 = 3
		}
		d1 := absDay{Date: "2021/01/24", Entries: []absIng{{"r1", 2}, {"r2", q2}, {"r3", 1}}}
		if unres {
			d1.Entries = append(d1.Entries, absIng{"u1", 1}, absIng{"u2", 1}, absIng{"z/u3", 1})
		} else {
			d1.Entries = append(d1.Entries, absIng{"u1", 1})
		}
		lg := absLog{d1}
		if days3 {
			lg = append(lg, absDay{Date: "2021/01/25", Entries: []absIng{{"r2", 2}, {"u2", 2}, {"a/b", 2}, {"a/c", 2}}},
				absDay{Date: "2021/01/26", Entries: []absIng{{"r1", -1}, {"u4", 1}, {"a/b", 1}}})
		}
		out = append(out, c05Input{Name: fmt.Sprintf("ties=%v,unresolved=%v,days3=%v,deepchain=%v", ties, unres, days3, deep), Book: renderBook(book), Log: renderLog(lg), Extra: extra})
	}
	// recipe graphs at the depth limit: chain, fork (deep branch listed first / last), diamond; the
	// limit is the longest chain (rejected) or one more (accepted) - on every visiting order
	shapes := []struct {
		name string
		book absBook
		h    int
	}{
		{"fork-deep-first", absBook{{"menu", []absIng{{"lasagna", 1}, {"salad", 1}}}, {"lasagna", []absIng{{"ragu", 2}}}, {"ragu", []absIng{{"cal", 3}}}, {"salad", []absIng{{"fat", 1}}}}, 3},
		{"fork-deep-last", absBook{{"menu", []absIng{{"salad", 1}, {"lasagna", 1}}}, {"lasagna", []absIng{{"ragu", 2}}}, {"ragu", []absIng{{"cal", 3}}}, {"salad", []absIng{{"fat", 1}}}}, 3},
		{"diamond", absBook{{"top", []absIng{{"left", 1}, {"right", 2}}}, {"left", []absIng{{"base", 1}}}, {"right", []absIng{{"base", 2}, {"fat", 1}}}, {"base", []absIng{{"cal", 1}}}}, 3},
		{"two-chains", absBook{{"a1", []absIng{{"a2", 1}}}, {"a2", []absIng{{"a3", 1}}}, {"a3", []absIng{{"cal", 1}}}, {"b1", []absIng{{"b2", 1}, {"a3", 1}}}, {"b2", []absIng{{"fat", 1}}}}, 3},
	}
	// quantities chosen so that exact sums sit on a rounding boundary of the printed precision: a report that adds
	// them up in map iteration order prints 10.54 in one run and 10.55 in another (0.5 x 3.01 + 0.5 x 5.03 + 0.5 x 13.05)
	{
		book := absBook{{"a/x", []absIng{{"cal", 3.01}, {"fat", 0.1}}}, {"b/y", []absIng{{"cal", 5.03}, {"fat", 0.2}}}, {"c/z", []absIng{{"cal", 13.05}, {"fat", 0.3}}}, {"d/w", []absIng{{"cal", 1e-3}, {"fat", 1e16}}}, {"e/v", []absIng{{"fat", -1e16}, {"cal", 0.005}}}}
		lg1 := absLog{{Date: "2021/01/24", Entries: []absIng{{"a/x", 0.5}, {"b/y", 0.5}, {"c/z", 0.5}}}}
		lg2 := absLog{{Date: "2021/01/24", Entries: []absIng{{"a/x", 0.5}, {"d/w", 1}, {"u1", 0.1}}}, {Date: "2021/01/25", Entries: []absIng{{"b/y", 0.5}, {"e/v", 1}, {"u2", 0.2}}}, {Date: "2021/01/26", Entries: []absIng{{"c/z", 0.5}, {"u3", 0.3}, {"u1", 0.2}}}}
		out = append(out, c05Input{Name: "half-cent-boundary-one-day", Book: renderBook(book), Log: renderLog(lg1)})
		out = append(out, c05Input{Name: "half-cent-boundary-three-days-huge-cancelling-terms", Book: renderBook(book), Log: renderLog(lg2)})
	}
	// non-finite quantities (the parser accepts NaN and Inf): comparisons with NaN are all false, so a sort or a
	// maximum over such values follows its input order - which must not be a map's iteration order
	{
		book := "r1:\n  cal: 2\n  fat: NaN\nr2:\n  cal: Inf\n  fat: 1\nr3:\n  cal: -Inf\n  prot: 1\n"
		lg := "2021/01/24:\n  water: NaN\n  r1: 1\n  juice: 2\n  tea: 2\n  r2: 1\n2021/01/25:\n  milk: inf\n  milk: -inf\n  r3: 1\n  r2: 1\n  bread: 1\n  juice: -1\n"
		out = append(out, c05Input{Name: "non-finite-quantities", Book: book, Log: lg})
	}
	// names that a plausible comparator cannot tell apart or cannot order (path-prefix pairs at a '/', pairs that differ
	// in case only, equal lengths, equal quantities): whatever a report sorts by, ties must not fall back to map order
	{
		book := "bread:\n  cal: 2\n  fat: 1\n  fat/sat: 1\n  Cal: 2\nbread/rye:\n  cal: 2\n  fat/sat: 1\n  FAT: 1\nBread:\n  cal: 2\n  ab: 1\n  ba: 1\nbread/rye/dark:\n  bread: 1\n  ab: 1\n"
		lg := "2021/01/24:\n  coffee: 1\n  coffee/cup: 1\n  Coffee: 1\n  bread: 1\n  bread/rye: 1\n  tea/: 1\n  tea: 1\n  ab: 1\n  ba: 1\n" +
			"2021/01/25:\n  coffee/cup/large: 1\n  coffee/cup: 1\n  Bread: 1\n  bread/rye/dark: 1\n  TEA: 1\n  tea: 1\n  coffee: 1\n  ba: 1\n"
		out = append(out, c05Input{Name: "names-no-comparator-separates", Book: book, Log: lg})
	}
	// books in which SEVERAL recipes violate the depth limit (cycles; a chain two references longer than the limit): which
	// of them is met first depends on the visiting order, the outcome - error text included - must not
	for _, rb := range []struct {
		name  string
		book  absBook
		depth string
	}{
		{"cycle-of-two", absBook{{"soup", []absIng{{"stock", 1}, {"cal", 1}}}, {"stock", []absIng{{"soup", 2}}}, {"ok", []absIng{{"cal", 1}}}}, "10"},
		{"cycle-of-three-with-tail", absBook{{"t", []absIng{{"a", 1}}}, {"a", []absIng{{"b", 1}}}, {"b", []absIng{{"c", 1}, {"fat", 1}}}, {"c", []absIng{{"a", 1}}}}, "10"},
		{"self-reference-and-cycle", absBook{{"s", []absIng{{"s", 1}}}, {"p", []absIng{{"q", 1}}}, {"q", []absIng{{"p", 1}}}}, "4"},
		{"chain-two-longer-than-the-limit", absBook{{"e1", []absIng{{"e2", 1}}}, {"e2", []absIng{{"e3", 1}}}, {"e3", []absIng{{"e4", 1}}}, {"e4", []absIng{{"e5", 1}}}, {"e5", []absIng{{"cal", 1}}}}, "3"},
	} {
		lg := absLog{{Date: "2021/01/24", Entries: []absIng{{rb.book[0].Name, 1}, {"u1", 2}}}}
		out = append(out, c05Input{Name: rb.name, Book: renderBook(rb.book), Log: renderLog(lg), Extra: []string{"--maxdepth", rb.depth}})
	}
	// every special scenario (harness/specials.go): one departure from the ordinary input at a time
	for _, sc := range specialScenarios() {
		out = append(out, c05Input{Name: "special: " + sc.Name, Book: renderBook(sc.Book), Log: renderLog(sc.Log)})
	}
	// several things wrong at once: which error is reported must not depend on anything but the inputs
	out = append(out, c05Input{Name: "log-and-book-malformed", Book: "r1:\n  cal: many\nr2:\n  nosep\n", Log: "2021/01/24:\n  r1: lots\n  u: 1\n2021/01/25:\n  alsonosep\n"})
	out = append(out, c05Input{Name: "log-malformed-book-cyclic", Book: "a:\n  b: 1\nb:\n  a: 1\n", Log: "2021/01/24:\n  a: x\n"})
	for _, sh := range shapes {
		for _, extraDepth := range []int{0, 1} {
			lg := absLog{{Date: "2021/01/24", Entries: []absIng{{sh.book[0].Name, 1}, {"u1", 2}}}, {Date: "2021/01/25", Entries: []absIng{{sh.book[1].Name, 2}, {"u2", 2}}}}
			out = append(out, c05Input{Name: fmt.Sprintf("%s,maxdepth=longest-chain+%d", sh.name, extraDepth), Book: renderBook(sh.book), Log: renderLog(lg), Extra: []string{"--maxdepth", fmt.Sprint(sh.h + extraDepth)}})
		}
	}
	return out
}

var c05Cmds = shapeArgs(func(s cmdShape) bool { return true })

func checkC05(w *Worker) {
	w.appInit()
	inputs := c05Inputs()
	if only := os.Getenv("VERIF_C05_INPUT"); only != "" { // development aid: one input by name prefix
		var sub []c05Input
		for _, in := range inputs {
			if strings.Contains(in.Name, only) {
				sub = append(sub, in)
			}
		}
		inputs = sub
	}
	c05Schedules(w, inputs)
	c05Again(w, inputs)
	baseCache := map[string]AppRun{}
	dev := 1
	if w.Tier == "thorough" {
		dev = 2
	}
	confirmed := 0
	w.Explore("maporder", ExploreOpts{ShardDepth: 2, Budgets: map[string]int{"env:maporder": dev}}, func(x *Exec) {
		x.NoConfirm = true // order-dependent outcomes: confirmed below by repeated runs of the real binary
		ii := x.Choose(len(inputs), "input:input")
		ci := x.Choose(len(c05Cmds), "input:command")
		policy := x.Choose(4, "input:policy") // 0: explorer-chosen single deviations; 1..3: persistent policies at every visit
		in := inputs[ii]
		args := append([]string{"--no-color", "--today", "2021/01/27"}, in.Extra...)
		args = append(args, c05Cmds[ci]...)
		c := appCase{Args: args, Files: map[string]string{"food.yaml": in.Book, "log.yaml": in.Log}}
		key := fmt.Sprintf("%d|%d", ii, ci)
		cs := c
		cs.SortedMaps = true
		base, ok := baseCache[key]
		if !ok {
			verifshim.PermHook = nil
			base = runAppDefaultSchedule(w, cs)
			baseCache[key] = base
		} else {
			logRun(cs, base)
		}
		var visits *[]mapVisit
		policyName := "single-visit deviations"
		switch policy {
		case 0:
			visits = installMapOrder(x, "env:maporder")
		default:
			policyName = []string{"", "reverse at every visit", "rotate by one at every visit", "swap first two at every visit"}[policy]
			vs := []mapVisit{}
			visits = &vs
			verifshim.PermHook = func(n int, site string) []int {
				p := make([]int, n)
				for i := range p {
					switch policy {
					case 1:
						p[i] = n - 1 - i
					case 2:
						p[i] = (i + 1) % n
					default:
						p[i] = i
					}
				}
				if policy == 3 {
					p[0], p[1] = p[1], p[0]
				}
				vs = append(vs, mapVisit{site, n, p})
				return p
			}
		}
		r := runApp(c)
		uninstallMapOrder()
		x.Obs(r.Key())
		nvis := len(*visits)
		x.Note("map_visits", int64(nvis))
		devSite := ""
		for _, v := range *visits {
			for i, p := range v.Perm {
				if p != i {
					devSite = v.Site
					break
				}
			}
			if devSite != "" {
				break
			}
		}
		x.Case(fmt.Sprintf("%s|%v|%d|%v", key, policy, nvis, devSite), devSite != "")
		x.Sample(map[string]interface{}{"input": in.Name, "cmd": c.shell(), "policy": policyName, "map_visits": *visits, "same_as_sorted_order": r.Key() == base.Key()})
		if r.Key() != base.Key() {
			detail := fmt.Sprintf("input %s\n`%s`\nmap iteration order: %s; visits %v\noutput under sorted map order:\n%s\noutput under the chosen order:\n%s", in.Name, c.shell(), policyName, *visits, base.String(), r.String())
			rep := map[string]interface{}{"cmd": c.shell(), "map_visits": *visits, "policy": policyName, "sorted_order_output": base.String(), "this_order_output": r.String()}
			if w.Bin != "" && confirmed < 6 {
				confirmed++
				outs := map[string]int{}
				for i := 0; i < 60; i++ {
					b := w.runBin(c, "")
					outs[b.Stdout+"\x00"+b.Stderr+fmt.Sprint(b.Code)]++
				}
				rep["real_binary_distinct_outputs_in_60_runs"] = len(outs)
				detail += fmt.Sprintf("\nun-instrumented binary, 60 runs of the same command: %d distinct outputs", len(outs))
			}
			kind := "output-depends-on-map-order"
			if r.Failed != base.Failed {
				kind = "success-depends-on-map-order"
			}
			x.Violate("C05|"+strings.Join(c05Cmds[ci], " ")+"|"+siteFile(devSite)+"|"+kind, detail, rep)
		}
	})
}

// c05Schedules: every command on every input under the cooperative scheduler - goroutines the command starts, their
// channel operations and their WaitGroups / mutexes (the rewriter routes them through the scheduler in every package of
// the repository) become transitions, and every order of them is explored. The outcome must be the one of the plain run.
// On a tree without goroutines in its commands this is one execution per case.
func c05Schedules(w *Worker, inputs []c05Input) {
	baseCache := map[string]AppRun{}
	w.Explore("schedules", ExploreOpts{ShardDepth: 2, Budgets: map[string]int{"appsched": 1 << 30}}, func(x *Exec) {
		x.NoConfirm = true
		ii := x.Choose(len(inputs), "input:input")
		ci := x.Choose(len(c05Cmds), "input:command")
		in := inputs[ii]
		args := append([]string{"--no-color", "--today", "2021/01/27"}, in.Extra...)
		args = append(args, c05Cmds[ci]...)
		c := appCase{Args: args, Files: map[string]string{"food.yaml": in.Book, "log.yaml": in.Log}, SortedMaps: true}
		key := fmt.Sprintf("%d|%d", ii, ci)
		base, ok := baseCache[key]
		if !ok {
			base = runAppDefaultSchedule(w, c)
			baseCache[key] = base
		} else {
			logRun(c, base)
		}
		// (runApp runs the command as thread "main" of a scheduler bound to this execution; here its choice points are
		// not bounded)
		r := runApp(c)
		sched := []string{}
		for _, cp := range x.trace {
			if cp.Class == "appsched" {
				sched = append(sched, fmt.Sprint(cp.C))
			}
		}
		x.Obs(r.Key())
		x.Case(fmt.Sprint(key, sched), len(sched) > 0)
		x.Note("scheduler_choice_points", int64(len(sched)))
		cname := strings.Join(c05Cmds[ci], " ")
		s := struct{ Trace []string }{sched}
		rep := map[string]interface{}{"cmd": c.shell(), "schedule_choices": sched, "plain_run": base.String(), "this_schedule": r.String()}
		switch {
		case r.Panic != "" && base.Panic == "":
			x.Violate("C05|"+cname+"|panic-under-a-schedule", fmt.Sprintf("input %s\n`%s`\nschedule choices %v: %s", in.Name, c.shell(), sched, r.Panic), rep)
		case strings.HasPrefix(r.Err, "VERIF: the command does not return"):
			x.Violate("C05|"+cname+"|does-not-terminate-under-a-schedule", fmt.Sprintf("input %s\n`%s`\n%s", in.Name, c.shell(), r.Err), rep)
		case r.Key() != base.Key():
			kind := "output-depends-on-the-schedule"
			if r.Failed != base.Failed {
				kind = "success-depends-on-the-schedule"
			}
			x.Violate("C05|"+cname+"|"+kind, fmt.Sprintf("input %s\n`%s`\nschedule of the command's goroutines: %v\nplain run:\n%s\nunder this schedule:\n%s", in.Name, c.shell(), s.Trace, base.String(), r.String()), rep)
		}
	})
}

// c05Again: "running any command again ... on every run of the program" also means: in a program that has run other
// commands before (the e2e tests, a caller of GetApp). An earlier run - any command shape, on the same files or on
// other files - whose package-level state is kept, then the command: its outcome is the one of a process of its own.
func c05Again(w *Worker, inputs []c05Input) {
	baseCache := map[string]AppRun{}
	other := 0
	for i, in := range inputs {
		if in.Name == "names-no-comparator-separates" {
			other = i
		}
	}
	mk := func(ii, ci int) appCase {
		in := inputs[ii]
		args := append([]string{"--no-color", "--today", "2021/01/27"}, in.Extra...)
		args = append(args, c05Cmds[ci]...)
		return appCase{Args: args, Files: map[string]string{"food.yaml": in.Book, "log.yaml": in.Log}, SortedMaps: true}
	}
	w.Explore("again-after-an-earlier-run-in-the-same-process", ExploreOpts{ShardDepth: 3}, func(x *Exec) {
		x.NoConfirm = true // (a single run of the binary cannot reproduce a sequence of runs)
		ii := x.Choose(len(inputs), "input:input")
		ci := x.Choose(len(c05Cmds), "input:command")
		// the earlier run: any command shape, on the same or on other files; or the same command under an environment
		// that names another book and log, another date format, another depth limit (the later run has none of them)
		ev := x.Choose(4, "event:earlier-run-environment")
		ei, eo := ci, 0
		if ev == 0 {
			ei = x.Choose(len(c05Cmds), "event:earlier-command")
			eo = x.Choose(2, "event:earlier-run-on-other-files")
		}
		c := mk(ii, ci)
		key := fmt.Sprintf("%d|%d", ii, ci)
		base, ok := baseCache[key]
		if !ok {
			base = runAppDefaultSchedule(w, c)
			baseCache[key] = base
		}
		ein := ii
		if eo == 1 {
			ein = other
		}
		ec := mk(ein, ei)
		switch ev {
		case 1:
			ec.Env = map[string]string{"HR_DATABASE": "other-food.yaml", "HR_LOGFILE": "other-log.yaml"}
			ec.Files = map[string]string{"food.yaml": inputs[ii].Book, "log.yaml": inputs[ii].Log, "other-food.yaml": inputs[other].Book, "other-log.yaml": inputs[other].Log}
		case 2:
			ec.Env = map[string]string{"HR_DATE_FORMAT": "2006-01-02"}
		case 3:
			ec.Env = map[string]string{"HR_MAXDEPTH": "1"}
		}
		runApp(ec) // (in a process of its own state: reset before it)
		appKeepState = true
		r := func() AppRun {
			defer func() { appKeepState = false }()
			return runApp(c)
		}()
		x.Obs(r.Key())
		x.Case(fmt.Sprint(key, ei, eo, ev), true)
		if r.Key() != base.Key() {
			kind := "output-depends-on-an-earlier-run"
			if r.Failed != base.Failed {
				kind = "success-depends-on-an-earlier-run"
			}
			cname := strings.Join(c05Cmds[ci], " ")
			x.Violate("C05|"+cname+"|"+kind, fmt.Sprintf("input %s\nafter `%s` in the same process\n`%s`\nin a process of its own:\n%s\nafter the earlier run:\n%s", inputs[ii].Name, ec.shell(), c.shell(), base.String(), r.String()),
				map[string]interface{}{"earlier": ec.shell(), "cmd": c.shell(), "own_process": base.String(), "after_earlier_run": r.String()})
		}
	})
}

func siteFile(site string) string {
	if i := strings.LastIndex(site, ":"); i >= 0 {
		site = site[:i]
	}
	if i := strings.LastIndex(site, "/"); i >= 0 {
		site = site[i+1:]
	}
	return site
}

// runAppDefaultSchedule: one application run under the default schedule (every scheduler choice 0), without adding
// choice points to the execution that asks for it - the reference run the other runs of a case are compared with.
func runAppDefaultSchedule(w *Worker, c appCase) AppRun {
	saved := curExec
	curExec = &Exec{w: w, dev: map[string]int{}, budget: map[string]int{"appsched": 0}, explore: "reference-run"}
	defer func() { curExec = saved }()
	return runApp(c)
}
