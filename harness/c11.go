package main

import (
	"fmt"
	verifshim "github.com/aquilax/hranoprovod-cli/v3/verifshim"
	"strings"

	shared "github.com/aquilax/hranoprovod-cli/v3"
	"github.com/aquilax/hranoprovod-cli/v3/resolver"
)

const depthErrText = "maximum resolution depth reached"

// absBook: recipes in declaration order; each has an ordered ingredient list.
type absIng struct {
	Name string
	Val  float64
}
type absRecipe struct {
	Name string
	Ings []absIng
}
type absBook []absRecipe

func (b absBook) String() string {
	var sb strings.Builder
	for _, r := range b {
		sb.WriteString(r.Name + ":")
		for _, i := range r.Ings {
			sb.WriteString(fmt.Sprintf(" %s*%g", i.Name, i.Val))
		}
		sb.WriteString("; ")
	}
	return sb.String()
}

func (b absBook) toDB() shared.DBNodeMap {
	db := shared.NewDBNodeMap()
	for _, r := range b {
		n := shared.NewParserNode(r.Name)
		for _, i := range r.Ings {
			n.Elements.Add(i.Name, i.Val)
		}
		db.Push(shared.NewDBNodeFromNode(n))
	}
	return db
}

const infHeight = 1 << 30

// refHeight: length (in references) of the longest chain of ingredient references
// starting at each recipe; infHeight when a cycle is reachable. Last definition of a
// name wins (as in the book map).
func refHeight(b absBook) map[string]int {
	def := map[string][]absIng{}
	for _, r := range b {
		def[r.Name] = r.Ings
	}
	memo := map[string]int{}
	state := map[string]int{} // 1 = on stack, 2 = done
	var h func(name string) int
	h = func(name string) int {
		ings, ok := def[name]
		if !ok {
			return 0
		}
		if state[name] == 1 {
			return infHeight
		}
		if state[name] == 2 {
			return memo[name]
		}
		state[name] = 1
		best := 0
		for _, i := range ings {
			c := h(i.Name)
			if c >= infHeight {
				best = infHeight
			} else if c+1 > best && best < infHeight {
				best = c + 1
			}
		}
		state[name] = 2
		memo[name] = best
		return best
	}
	out := map[string]int{}
	for name := range def {
		// fresh traversal per root so that on-stack detection is exact
		state = map[string]int{}
		memo = map[string]int{}
		out[name] = h(name)
	}
	return out
}

func maxHeight(hs map[string]int) int {
	m := 0
	for _, v := range hs {
		if v > m {
			m = v
		}
	}
	return m
}

// resolveTwiceVia: the first resolution, and a function that resolves again - through the SAME Resolver value for the
// object API (a value that is used twice), through another call for the function API.
func resolveTwiceVia(api int, db shared.DBNodeMap, n int) (error, func() error) {
	if api == 0 {
		_, err := resolver.Resolve(resolver.Config{MaxDepth: n}, db)
		return err, func() error { _, e := resolver.Resolve(resolver.Config{MaxDepth: n}, db); return e }
	}
	r := resolver.NewResolver(db, resolver.Config{MaxDepth: n})
	return r.Resolve(), r.Resolve
}

func resolveVia(api int, db shared.DBNodeMap, n int) error {
	if api == 0 {
		_, err := resolver.Resolve(resolver.Config{MaxDepth: n}, db)
		return err
	}
	return resolver.NewResolver(db, resolver.Config{MaxDepth: n}).Resolve()
}

var apiNames = []string{"resolver.Resolve", "Resolver.Resolve"}

// c11Quantities: a line that takes a recipe 0 times (or a negative number of times) is a reference like any other.
// scheme 0: every quantity 1; 1: every reference to a recipe 0, plain elements 1; 2: alternating 0 and -2.
func c11Quantities(book absBook, scheme int) {
	defined := map[string]bool{}
	for _, r := range book {
		defined[r.Name] = true
	}
	for i := range book {
		for j := range book[i].Ings {
			switch scheme {
			case 1:
				if defined[book[i].Ings[j].Name] {
					book[i].Ings[j].Val = 0
				}
			case 2:
				if (i+j)%2 == 0 {
					book[i].Ings[j].Val = 0
				} else {
					book[i].Ings[j].Val = -2
				}
			}
		}
	}
}

var c11Outcome = map[string]string{}

func init() { propChecks["C11"] = checkC11 }

func checkC11(w *Worker) {
	names := []string{"r0", "r1", "r2", "r3", "r4"}
	c11Body := func(x *Exec, book absBook, n int, api int, what string) {
		hs := refHeight(book)
		mh := maxHeight(hs)
		wantErr := mh >= n
		db := book.toDB()
		visits := installMapOrder(x, "env:maporder")
		var err error
		func() {
			defer uninstallMapOrder()
			defer func() {
				if r := recover(); r != nil {
					rethrowSentinel(r)
					err = fmt.Errorf("PANIC: %v", r)
				}
			}()
			w.watch(fmt.Sprintf("C11 %s book=%s N=%d api=%d", what, book, n, api))
			err = resolveVia(api, db, n)
			w.unwatch()
		}()
		got := "ok"
		if err != nil {
			got = err.Error()
		}
		x.Obs(got)
		refs := 0
		for _, r := range book {
			for _, i := range r.Ings {
				if _, ok := hs[i.Name]; ok {
					refs++
				}
			}
		}
		x.Case(fmt.Sprintf("%s|%d|%d", book, n, api), refs > 0)
		x.Sample(map[string]interface{}{"book": book.String(), "N": n, "api": apiNames[api], "visits": *visits, "longest_chain": mh, "result": got})
		rep := map[string]interface{}{"book": book.String(), "N": n, "api": apiNames[api], "map_visits": *visits, "longest_chain": mh, "expected_error": wantErr, "observed": got}
		// the same on every run: the outcome (error text included) of one book under one limit is one, whatever the order
		okey := fmt.Sprintf("%s|%s|%d|%d", what, book, n, api)
		if prev, seen := c11Outcome[okey]; !seen {
			if len(c11Outcome) < 2000000 {
				c11Outcome[okey] = got
			}
		} else if prev != got {
			x.Violate("C11|"+what+"|outcome-depends-on-visiting-order", fmt.Sprintf("book {%s} N=%d via %s: %q under one visiting order, %q under another (%v)", book, n, apiNames[api], prev, got, *visits), rep)
			return
		}
		if err != nil && !strings.Contains(got, depthErrText) { // (the message may say more, e.g. name a recipe)
			x.Violate("C11|"+what+"|unexpected-error-or-panic", fmt.Sprintf("book {%s} N=%d via %s: unexpected result %q", book, n, apiNames[api], got), rep)
			return
		}
		if wantErr && err == nil {
			kind := "chain-ge-N-accepted"
			if mh >= infHeight {
				kind = "cycle-accepted"
			}
			x.Violate("C11|"+what+"|"+kind, fmt.Sprintf("book {%s} N=%d via %s, visiting order %v: longest reference chain is %s (>= N) but resolution succeeded", book, n, apiNames[api], *visits, heightStr(mh)), rep)
		}
		if !wantErr && err != nil {
			x.Violate("C11|"+what+"|chain-lt-N-rejected", fmt.Sprintf("book {%s} N=%d via %s, visiting order %v: longest reference chain is %d (< N) but resolution failed: %s", book, n, apiNames[api], *visits, mh, got), rep)
		}
	}
	graphs := func(k int) func(x *Exec) {
		names := names[:k]
		all := append(append([]string{}, names...), "x")
		nsub := 1 << uint(k+1)
		return func(x *Exec) {
			book := absBook{}
			for i := 0; i < k; i++ {
				mask := x.Choose(nsub, "input:ingredients")
				r := absRecipe{Name: names[i]}
				for j, nm := range all {
					if mask&(1<<uint(j)) != 0 {
						r.Ings = append(r.Ings, absIng{nm, 1})
					}
				}
				book = append(book, r)
			}
			n := 1 + x.Choose(k+2, "input:maxdepth")
			api := x.Choose(2, "input:api")
			c11Quantities(book, x.Choose(2, "shape:quantities")*2)
			// a recipe may list the same ingredient on several of its lines: that is one more line, not one more level
			switch x.Choose(3, "shape:repeated-lines") {
			case 1:
				for i := range book {
					if len(book[i].Ings) > 0 {
						book[i].Ings = append(book[i].Ings, book[i].Ings[0])
					}
				}
			case 2:
				for i := range book {
					if n := len(book[i].Ings); n > 0 {
						book[i].Ings = append([]absIng{book[i].Ings[n-1], book[i].Ings[n-1]}, book[i].Ings...)
					}
				}
			}
			c11Body(x, book, n, api, "graph")
		}
	}
	if w.Tier == "thorough" {
		// four recipes: plain quantities and lines (the full product does not finish within the deadline); three recipes: every shape
		w.Explore("graphs-k4-plain", ExploreOpts{ShardDepth: 2, Budgets: map[string]int{"shape": 0}}, graphs(4))
		w.Explore("graphs-k3-all-shapes", ExploreOpts{ShardDepth: 2}, graphs(3))
	} else {
		w.Explore("graphs", ExploreOpts{ShardDepth: 2}, graphs(3))
	}
	// acyclic books on 4 (thorough 5) recipes in topological numbering: every subset of the later
	// recipes and the leaf as ingredient set, listed in ascending or descending order (deep-before-shallow
	// and shallow-before-deep forks), against the two limits that matter: N = longest chain (must
	// fail) and N = longest chain + 1 (must succeed), under every visiting order of every ranged map
	ka := 4
	anames := []string{"a0", "a1", "a2", "a3", "a4"}
	w.Explore(fmt.Sprintf("acyclic-k%d-tight-limits", ka), ExploreOpts{ShardDepth: 4}, func(x *Exec) {
		desc := x.Choose(2, "input:ingredient-order")
		api := x.Choose(2, "input:api")
		tight := x.Choose(2, "input:limit") // 0: N = longest chain, 1: N = longest chain + 1
		book := absBook{}
		for i := 0; i < ka; i++ {
			cands := append(append([]string{}, anames[i+1:ka]...), "x")
			mask := x.Choose(1<<uint(len(cands)), "input:ingredients")
			r := absRecipe{Name: anames[i]}
			for j, nm := range cands {
				if mask&(1<<uint(j)) != 0 {
					r.Ings = append(r.Ings, absIng{nm, 1})
				}
			}
			if desc == 1 {
				for l, rr := 0, len(r.Ings)-1; l < rr; l, rr = l+1, rr-1 {
					r.Ings[l], r.Ings[rr] = r.Ings[rr], r.Ings[l]
				}
			}
			book = append(book, r)
		}
		mh := maxHeight(refHeight(book))
		n := mh + tight
		if n < 1 {
			x.Case("skip-empty", false)
			return
		}
		c11Quantities(book, x.Choose(3, "input:quantities"))
		c11Body(x, book, n, api, "acyclic")
	})
	// books beyond any "small book" shortcut (more than 64, more than 128 recipes), resolved as thread "main" of the scheduler:
	// if the depth rule is evaluated by goroutines, their lock, channel and atomic operations are explored (one departure
	// from the default schedule). Forced to collide: every top-level recipe goes through the same chain of sub-recipes.
	// Against the two limits that matter (N = longest chain: refused; N = longest chain + 1: accepted) and with a cycle.
	w.Explore("large-books-under-the-scheduler", ExploreOpts{ShardDepth: 4, Budgets: map[string]int{"env:maporder": 0, "appsched": 1}}, func(x *Exec) {
		api := x.Choose(2, "input:api")
		tops := []int{70, 140}[x.Choose(2, "input:top-level-recipes")]
		chain := 1 + x.Choose(3, "input:shared-chain")  // 1..3 shared sub-recipes in a row
		shape := x.Choose(4, "input:shape-of-the-book") // shared chain; + a two-recipe cycle; + a self-reference; declared backwards
		tight := x.Choose(2, "input:limit")             // 0: N = longest chain, 1: N = longest chain + 1
		book := absBook{}
		for i := 0; i < chain; i++ {
			next := "leaf"
			if i+1 < chain {
				next = fmt.Sprintf("mid-%d", i+1)
			}
			book = append(book, absRecipe{fmt.Sprintf("mid-%d", i), []absIng{{next, 2}, {"salt", 1}}})
		}
		for i := 0; i < tops; i++ {
			book = append(book, absRecipe{fmt.Sprintf("meal-%03d", i), []absIng{{"mid-0", float64(1 + i%3)}, {fmt.Sprintf("el-%d", i%5), 2}}})
		}
		switch shape {
		case 1:
			book = append(book, absRecipe{"loop-a", []absIng{{"loop-b", 1}}}, absRecipe{"loop-b", []absIng{{"loop-a", 1}, {"mid-0", 1}}})
		case 2:
			book = append(book, absRecipe{"self", []absIng{{"mid-0", 1}, {"self", 1}}})
		case 3:
			for l, r := 0, len(book)-1; l < r; l, r = l+1, r-1 {
				book[l], book[r] = book[r], book[l]
			}
		}
		hs := refHeight(book)
		mh := maxHeight(hs)
		n := 10
		if mh < infHeight {
			n = mh + tight
		} else if tight == 1 {
			n = 50
		}
		wantErr := mh >= n
		db := book.toDB()
		installMapOrder(x, "env:maporder")
		var err error
		finished := false
		s := NewSched(x)
		s.Class = "appsched"
		s.Go("main", func() {
			err = resolveVia(api, db, n)
			finished = true
		})
		func() {
			defer uninstallMapOrder()
			s.Run()
		}()
		if s.Stalled {
			x.Case("skip: not schedulable", false)
			x.Note("schedule_exploration_abandoned", 1)
			return
		}
		got := "ok"
		if err != nil {
			got = err.Error()
		}
		x.Obs(got)
		x.Case(fmt.Sprint("large", api, tops, chain, shape, tight, len(s.Trace)), true)
		x.Note("scheduler_transitions", int64(len(s.Trace)))
		what := fmt.Sprintf("%d recipes through a shared chain of %d (shape %d), N=%d via %s, schedule %v", tops, chain, shape, n, apiNames[api], tailStr(fmt.Sprint(s.Trace), 600))
		rep := map[string]interface{}{"api": apiNames[api], "recipes": len(book), "N": n, "longest_chain": heightStr(mh), "schedule": s.Trace, "observed": got}
		switch {
		case len(s.Panics) > 0 || !finished:
			x.Violate("C11|large-book|panics-or-does-not-return", fmt.Sprintf("%s: panics %v, returned %v (%v)", what, s.Panics, finished, s.ParkedAtEnd()), rep)
		case err != nil && !strings.Contains(got, depthErrText):
			x.Violate("C11|large-book|unexpected-error", what+": "+got, rep)
		case wantErr && err == nil:
			x.Violate("C11|large-book|chain-ge-N-or-cycle-accepted", fmt.Sprintf("%s: longest reference chain is %s (>= N) but resolution succeeded", what, heightStr(mh)), rep)
		case !wantErr && err != nil:
			x.Violate("C11|large-book|chain-lt-N-rejected", fmt.Sprintf("%s: longest reference chain is %d (< N) but resolution failed: %s", what, mh, got), rep)
		}
	})
	// call sequences: a program that resolves several books in one process. Whatever an earlier call did - succeed, hit the
	// limit, meet a cycle - the outcome for the next book is the outcome it has on its own (sorted visiting order both times)
	polluters := []struct {
		book absBook
		n    int
	}{
		{absBook{{"r0", []absIng{{"r1", 1}}}, {"r1", []absIng{{"r0", 1}}}}, 10},                                       // cycle
		{absBook{{"r0", []absIng{{"r1", 1}}}, {"r1", []absIng{{"r2", 1}}}, {"r2", []absIng{{"x", 1}}}}, 2},            // chain over the limit
		{absBook{{"r0", []absIng{{"x", 1}}}}, 1},                                                                      // one reference, limit 1
		{absBook{{"r0", []absIng{{"r1", 3}, {"x", 1}}}, {"r1", []absIng{{"r2", 2}}}, {"r2", []absIng{{"x", 7}}}}, 10}, // accepted
		{absBook{{"r2", []absIng{{"r2", 1}}}, {"r1", []absIng{{"x", 1}}}}, 3},                                         // self-reference
	}
	w.Explore("call-sequences", ExploreOpts{ShardDepth: 3}, func(x *Exec) {
		pi := x.Choose(len(polluters), "event:earlier-call")
		pj := x.Choose(len(polluters)+1, "event:second-earlier-call") // last: none (the book under test is the second call, else the third)
		api := x.Choose(2, "input:api")
		book := absBook{}
		for i := 0; i < 3; i++ {
			mask := x.Choose(16, "input:ingredients")
			r := absRecipe{Name: []string{"r0", "r1", "r2"}[i]}
			for j, nm := range []string{"r0", "r1", "r2", "x"} {
				if mask&(1<<uint(j)) != 0 {
					r.Ings = append(r.Ings, absIng{nm, 1})
				}
			}
			book = append(book, r)
		}
		n := 1 + x.Choose(4, "input:maxdepth")
		outcome := func(b absBook, n int) (res string) {
			defer func() {
				if r := recover(); r != nil {
					rethrowSentinel(r)
					res = fmt.Sprintf("PANIC: %v", r)
				}
			}()
			if err := resolveVia(api, b.toDB(), n); err != nil {
				return err.Error()
			}
			return "ok"
		}
		alone := outcome(book, n)
		verifshim.ResetPackageState()
		first := outcome(polluters[pi].book, polluters[pi].n)
		if pj < len(polluters) {
			first += " then " + outcome(polluters[pj].book, polluters[pj].n)
		}
		after := outcome(book, n)
		x.Obs(alone, first)
		x.Case(fmt.Sprint(pi, pj, api, book, n), true)
		if alone != after {
			x.Violate("C11|call-sequence|outcome-depends-on-an-earlier-call", fmt.Sprintf("book {%s} N=%d via %s: %q on its own, %q right after resolving {%s} with N=%d (which gave %q) in the same process",
				book, n, apiNames[api], alone, after, polluters[pi].book, polluters[pi].n, first), map[string]interface{}{"book": book.String(), "N": n, "earlier_book": polluters[pi].book.String(), "earlier_N": polluters[pi].n})
		}
	})
	// the limit as the user gives it: --maxdepth, HR_MAXDEPTH or the configuration file, through the real commands
	w.appInit()
	w.Explore("limit-through-flag-env-config", ExploreOpts{ShardDepth: 3}, func(x *Exec) {
		src := x.Choose(5, "config:limit-source") // flag, env, --config file, HR_CONFIG file, default (10)
		n := []int{1, 2, 3, 4, 11, 12}[x.Choose(6, "input:maxdepth")]
		if src == 4 {
			n = 10
		}
		delta := x.Choose(3, "input:chain-length") - 1 // longest chain = N-1, N, N+1... (0 -> N-1, 1 -> N, 2 -> cyclic)
		ci := x.Choose(4, "input:command")
		L := n - 1 + delta
		var sb strings.Builder
		if delta == 2 {
			L = 2
			sb.WriteString("c1:\n  c2: 1\nc2:\n  c1: 1\n  cal: 1\n")
		} else {
			for i := 1; i <= L; i++ {
				next := fmt.Sprintf("c%02d", i+1)
				if i == L {
					next = "cal"
				}
				sb.WriteString(fmt.Sprintf("c%02d:\n  %s: 1\n", i, next))
			}
			if L == 0 {
				sb.WriteString("c01:\n")
			}
		}
		files := map[string]string{"food.yaml": sb.String(), "log.yaml": "2021/01/24:\n  c01: 1\n"}
		c := appCase{Files: files, Env: map[string]string{}}
		switch src {
		case 0:
			c.Args = []string{"--maxdepth", fmt.Sprint(n)}
		case 1:
			c.Env["HR_MAXDEPTH"] = fmt.Sprint(n)
		case 2:
			files["depth.cfg"] = fmt.Sprintf("[Resolver]\nMaxDepth=%d\n", n)
			c.Args = []string{"--config", "depth.cfg"}
		case 3:
			files["depth.cfg"] = fmt.Sprintf("[Resolver]\nMaxDepth=%d\n", n)
			c.Env["HR_CONFIG"] = "depth.cfg"
		}
		c.Args = append(c.Args, [][]string{{"--no-color", "reg"}, {"csv", "database-resolved"}, {"report", "element-total", "cal"}, {"--no-color", "bal", "-s", "cal"}}[ci]...)
		r := runApp(c)
		x.w.binMustAgree(x, c, r, "C11|app")
		wantErr := delta == 2 || L >= n
		x.Obs(fmt.Sprint(r.Failed), r.Err)
		x.Case(fmt.Sprint(src, n, delta, ci), true)
		srcName := []string{"--maxdepth", "HR_MAXDEPTH", "--config file", "HR_CONFIG file", "default"}[src]
		rep := map[string]interface{}{"cmd": c.shell(), "limit": n, "limit_source": srcName, "longest_chain": L, "cyclic": delta == 2, "observed": r.String()}
		if r.Panic != "" {
			x.Violate("C11|app|panic", fmt.Sprintf("`%s`: %s", c.shell(), r.Panic), rep)
			return
		}
		if wantErr && (!r.Failed || !strings.Contains(r.Err, depthErrText)) {
			x.Violate("C11|app|"+srcName+"|chain-ge-N-accepted", fmt.Sprintf("limit %d given through %s, longest chain %d (cyclic: %v): `%s` did not fail with the depth error: %s", n, srcName, L, delta == 2, c.shell(), r.String()), rep)
		}
		if !wantErr && r.Failed {
			x.Violate("C11|app|"+srcName+"|chain-lt-N-rejected", fmt.Sprintf("limit %d given through %s, longest chain %d: `%s` failed: %s", n, srcName, L, c.shell(), r.Err), rep)
		}
	})
	// every graph on two recipes and a plain ingredient (self-references, cycles of two, forks, empty recipes) as a FILE read by
	// the commands that resolve the book: the loader stands between the file and the resolver, and it must hand over
	// every line that is in the file
	appCmds := [][]string{{"--no-color", "reg"}, {"--no-color", "bal"}, {"csv", "database-resolved"}, {"report", "element-total", "x"}, {"report", "totals"}, {"--no-color", "summary", "2021/01/24"}, {"report", "unresolved"},
		// ... asked about a name that is a recipe of the book itself
		{"report", "element-total", "r1"}, {"report", "element-total", "r0"}, {"--no-color", "reg", "-s", "r1"}, {"--no-color", "bal", "-s", "r0"}}
	w.Explore("graphs-through-files-and-commands", ExploreOpts{ShardDepth: 3}, func(x *Exec) {
		all := []string{"r0", "r1", "x"}
		book := absBook{}
		for i := 0; i < 2; i++ {
			mask := x.Choose(8, "input:ingredients")
			r := absRecipe{Name: all[i]}
			for j, nm := range all {
				if mask&(1<<uint(j)) != 0 {
					r.Ings = append(r.Ings, absIng{nm, float64(1 + j)})
				}
			}
			book = append(book, r)
		}
		n := []int{1, 2, 3, 10}[x.Choose(4, "input:maxdepth")]
		cmd := appCmds[x.Choose(len(appCmds), "input:command")]
		mh := maxHeight(refHeight(book))
		wantErr := mh >= n
		c := appCase{Args: append([]string{"--maxdepth", fmt.Sprint(n)}, cmd...), Files: map[string]string{"food.yaml": renderBook(book), "log.yaml": "2021/01/24:\n  r0: 1\n  r1: 2\n"}}
		r := runApp(c)
		x.Obs(fmt.Sprint(r.Failed), r.Err)
		x.Case(fmt.Sprint(book.String(), n, cmd), true)
		rep := map[string]interface{}{"cmd": c.shell(), "limit": n, "longest_chain": heightStr(mh), "observed": r.String()}
		switch {
		case r.Panic != "":
			x.Violate("C11|app-graph|panic", fmt.Sprintf("`%s`: %s", c.shell(), r.Panic), rep)
		case wantErr && (!r.Failed || !strings.Contains(r.Err, depthErrText)):
			kind := "chain-ge-N-accepted"
			if mh >= infHeight {
				kind = "cycle-accepted"
			}
			x.Violate("C11|app-graph|"+kind, fmt.Sprintf("book {%s}, limit %d, longest chain %s: `%s` did not fail with the depth error: %s", book, n, heightStr(mh), c.shell(), r.String()), rep)
		case !wantErr && r.Failed:
			x.Violate("C11|app-graph|chain-lt-N-rejected", fmt.Sprintf("book {%s}, limit %d, longest chain %d: `%s` failed: %s", book, n, mh, c.shell(), r.Err), rep)
		}
	})
	// pure chains c1 -> c2 -> ... -> cL -> x, around every N
	maxL, maxN := 6, 8
	if w.Tier == "thorough" {
		maxL, maxN = 13, 14
	}
	w.Explore("chains", ExploreOpts{ShardDepth: 2}, func(x *Exec) {
		L := 1 + x.Choose(maxL, "input:chainlen")
		n := 1 + x.Choose(maxN, "input:maxdepth")
		api := x.Choose(2, "input:api")
		rev := x.Choose(2, "input:naming") // sorted order = top-first or bottom-first
		book := absBook{}
		nm := func(i int) string {
			if i == L {
				return "x"
			}
			if rev == 1 {
				return fmt.Sprintf("c%02d", L-1-i)
			}
			return fmt.Sprintf("c%02d", i)
		}
		for i := 0; i < L; i++ {
			book = append(book, absRecipe{Name: nm(i), Ings: []absIng{{nm(i + 1), 1}}})
		}
		c11Body(x, book, n, api, "chain")
	})
}

func heightStr(h int) string {
	if h >= infHeight {
		return "unbounded (cycle)"
	}
	return fmt.Sprintf("%d", h)
}
