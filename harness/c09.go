package main

import (
	"fmt"
	"strings"

	"github.com/aquilax/hranoprovod-cli/v3/parser"
)

func init() { propChecks["C09"] = checkC09 }

type badLine struct {
	Text string
	Kind int // 0: no blank before the value, 1: value is not a number
	Qty  string
}

var c09Bad = []badLine{
	{"  foo:5", 0, ""},
	{"\tbar", 0, ""},
	{"- baz:1.5", 0, ""},
	{"  foo: abc", 1, "abc"},
	{"  a b: 1,5", 1, "1,5"},
	{"\tx: 1.2.3 ", 1, "1.2.3"},
	{"  - y: 12kg", 1, "12kg"},
	{"  \"white bread\":  2 slices", 1, "slices"},
	{"  back\\slash:x", 0, ""},
}

// quotes: does msg quote the raw line and its 1-based number? (format-agnostic: the message must
// contain the line verbatim and the number as a token of its own)
func quotes(msg string, raw string, lineNo int) bool {
	if !strings.Contains(msg, raw) {
		return false
	}
	rest := strings.Replace(msg, raw, "", 1)
	num := fmt.Sprint(lineNo)
	for i := 0; i+len(num) <= len(rest); i++ {
		if rest[i:i+len(num)] == num {
			before := i == 0 || rest[i-1] < '0' || rest[i-1] > '9'
			after := i+len(num) == len(rest) || rest[i+len(num)] < '0' || rest[i+len(num)] > '9'
			if before && after {
				return true
			}
		}
	}
	return false
}

func (b badLine) message(lineNo int) string {
	if b.Kind == 0 {
		return parser.NewErrorBadSyntax(lineNo, b.Text).Error()
	}
	return parser.NewErrorConversion(nil, b.Qty, lineNo, b.Text).Error()
}

var c09DbCmds = shapeArgs(func(s cmdShape) bool { return s.Db && !s.Lint })
var c09LogCmds = shapeArgs(func(s cmdShape) bool { return s.Log && !s.Lint })

func checkC09(w *Worker) {
	w.appInit()
	maxR, maxE, secondKinds := 2, 1, 2
	if w.Tier == "thorough" {
		maxR, maxE, secondKinds = 2, 2, len(c09Bad)
	}
	const goodBook = "r1:\n  cal: 2\n"
	const goodLog = "2021/01/24:\n  r1: 1\n"
	body := func(kmin, kmax int) func(x *Exec) {
		return func(x *Exec) {
			role := x.Choose(3, "input:role") // 0 book, 1 log, 2 linted file
			f := genSkeleton(x, maxR, maxE, role == 1)
			text, lines := renderFile(x, f, renderOpts{})
			eol := "\n"
			if strings.Contains(text, "\r\n") && !strings.Contains(strings.ReplaceAll(text, "\r\n", ""), "\n") {
				eol = "\r\n"
			}
			// physical lines -> plant k malformed lines after the first heading
			firstHeading := -1
			for i, l := range lines {
				if l.Kind == "heading" {
					firstHeading = i
					break
				}
			}
			k := kmin + x.Choose(kmax-kmin+1, "input:bad-lines")
			type planted struct {
				after int
				b     badLine
			}
			var pl []planted
			lo := firstHeading
			for j := 0; j < k; j++ {
				pos := lo + x.Choose(len(lines)-lo, "input:bad-position")
				nk := len(c09Bad)
				if j > 0 {
					nk = secondKinds // quick: the second planted line takes one shape of each kind
				}
				if j == 0 && kmin == 2 && secondKinds < len(c09Bad) {
					nk = 4 // quick, two planted lines: four shapes for the first one too (all nine are used with k = 1)
				}
				bi := x.Choose(nk, "input:bad-kind")
				if nk < len(c09Bad) {
					bi = []int{0, 3, 7, 8, 1, 5}[(bi+2*j)%6] // one shape of each kind, different ones for the two lines
				}
				b := c09Bad[bi]
				pl = append(pl, planted{pos, b})
				lo = pos
			}
			// rebuild the text line by line (original terminators are lost for simplicity: re-render with eol; a file without final newline is covered by C04)
			raw := splitPhysical(text)
			var out []string
			var expect []string
			var expLine []int
			var expRaw []string
			lineNo := 0
			pi := 0
			var plantedAt []int // indices in out of the planted lines
			var lintAll []string
			for i := range raw {
				out = append(out, raw[i])
				lineNo++
				for pi < len(pl) && pl[pi].after == i {
					lineNo++
					plantedAt = append(plantedAt, len(out))
					out = append(out, pl[pi].b.Text+eol)
					expect = append(expect, pl[pi].b.message(lineNo))
					expLine = append(expLine, lineNo)
					expRaw = append(expRaw, pl[pi].b.Text)
					pi++
				}
			}
			if len(raw) > 0 && !strings.HasSuffix(raw[len(raw)-1], "\n") && k > 0 {
				// last original line had no terminator: give it one so the planted line is a line of its own
				x.Case("skip-no-final-newline", false)
				return
			}
			full := strings.Join(out, "")
			x.Case(full, k > 0)
			var files map[string]string
			var cmds [][]string
			// the file the malformed one is read together with: ordinary, empty, or holding nothing but a comment
			otherEmpty := role != 2 && x.Choose(2, "input:the-other-file-holds-only-a-comment") == 1
			switch role {
			case 0:
				files = map[string]string{"food.yaml": full, "log.yaml": goodLog}
				if otherEmpty {
					files["log.yaml"] = "# nothing here yet\n\n"
				}
				cmds = c09DbCmds
			case 1:
				files = map[string]string{"food.yaml": goodBook, "log.yaml": full}
				if otherEmpty {
					files["food.yaml"] = "# nothing here yet\n\n"
				}
				cmds = c09LogCmds
			default:
				files = map[string]string{"file.yaml": full, "food.yaml": goodBook, "log.yaml": goodLog}
			}
			x.Sample(map[string]interface{}{"role": role, "file": full, "expected_messages": expect})
			if role == 2 {
				lintFirst := ""
				for _, silent := range []bool{false, true} {
					args := []string{"lint"}
					if silent {
						args = append(args, "--silent")
					}
					args = append(args, "file.yaml")
					c := appCase{Args: args, Files: files}
					r := runApp(c)
					x.Obs(r.Key())
					want := strings.Join(expect, "\n")
					if len(expect) > 0 {
						want += "\n"
					}
					if k == 0 && !silent {
						want = "No errors found\n"
					}
					rep := map[string]interface{}{"cmd": c.shell(), "observed": r.String(), "expected_stdout_with_current_wording": want}
					if r.Panic != "" {
						x.Violate("C09|lint|panic", fmt.Sprintf("`%s`: %s", c.shell(), r.String()), rep)
						return
					}
					got := splitLines(r.Stdout)
					ok := true
					kind := "wrong-messages"
					if k == 0 {
						ok = r.Stdout == want
					} else {
						if len(got) > k && strings.Contains(strings.Join(got[k:], "\n"), "No errors found") {
							ok, kind = false, "no-errors-found-printed-after-errors"
						} else if len(got) != k {
							ok = false
						} else {
							for i := range got {
								if !quotes(got[i], expRaw[i], expLine[i]) {
									ok, kind = false, "message-does-not-quote-line-and-number"
								}
							}
						}
					}
					if !ok {
						x.Violate("C09|lint|"+kind, fmt.Sprintf("`%s`\nprinted:\n%s\nexpected one message per malformed line, in file order, each quoting the raw line and its 1-based number; with the current wording:\n%s", c.shell(), r.Stdout, want), rep)
						return
					}
					if k > 0 {
						lintFirst = got[0]
						lintAll = got
					}
					// lint is a command that reads the file: with malformed lines it must not report success, silent or not
					if k > 0 && !r.Failed {
						x.Violate("C09|lint|success-on-malformed-file", fmt.Sprintf("`%s` prints the %d messages and then reports success (exit status 0)", c.shell(), k), rep)
						return
					}
					if k == 0 && r.Failed {
						x.Violate("C09|lint|failure-on-well-formed-file", fmt.Sprintf("`%s` fails on a well-formed file: %s", c.shell(), r.Err), rep)
						return
					}
				}
				if k > 0 {
					// "with the same messages": what lint prints for the first malformed line is what a reading command fails with
					c := appCase{Args: []string{"csv", "database"}, Files: map[string]string{"food.yaml": full}}
					r := runApp(c)
					if r.Failed && r.Panic == "" && r.Err != lintFirst {
						x.Violate("C09|lint|message-differs-from-commands", fmt.Sprintf("lint prints %q for the first malformed line, `csv database` on the same file fails with %q", lintFirst, r.Err), nil)
						return
					}
					// ... and for every later malformed line: what a reading command fails with once the malformed lines before it
					// are repaired (replaced, line for line, by a well-formed entry)
					for i := 1; i < k && i < len(lintAll); i++ {
						fixed := append([]string{}, out...)
						for j := 0; j < i; j++ {
							fixed[plantedAt[j]] = "  filler: 1" + eol
						}
						c := appCase{Args: []string{"csv", "database"}, Files: map[string]string{"food.yaml": strings.Join(fixed, "")}}
						r := runApp(c)
						if r.Failed && r.Panic == "" && r.Err != lintAll[i] {
							x.Violate("C09|lint|message-differs-from-commands", fmt.Sprintf("lint prints %q for malformed line number %d of the file; with the malformed lines before it repaired `csv database` fails with %q\nfile:\n%s", lintAll[i], i+1, r.Err, full), nil)
							return
						}
					}
				}
				return
			}
			for _, cmd := range cmds {
				c := appCase{Args: append([]string{"--no-color"}, cmd...), Files: files}
				r := runApp(c)
				x.Obs(r.Key())
				name := strings.Join(cmd, " ")
				roleName := []string{"book", "log"}[role]
				rep := map[string]interface{}{"cmd": c.shell(), "observed": r.String(), "expected_error": firstOr(expect)}
				if r.Panic != "" {
					x.Violate("C09|"+roleName+"|"+name+"|panic", fmt.Sprintf("`%s` panicked: %s", c.shell(), r.String()), rep)
					continue
				}
				if k == 0 {
					if r.Failed {
						x.Violate("C09|"+roleName+"|"+name+"|well-formed-file-rejected", fmt.Sprintf("`%s`: %s", c.shell(), r.String()), rep)
					}
					continue
				}
				if !r.Failed {
					x.Violate("C09|"+roleName+"|"+name+"|malformed-entry-not-reported", fmt.Sprintf("`%s` succeeded although line %q is malformed; expected error %q\nstdout:\n%s", c.shell(), pl[0].b.Text, expect[0], r.Stdout), rep)
					continue
				}
				if !quotes(r.Err, expRaw[0], expLine[0]) {
					x.Violate("C09|"+roleName+"|"+name+"|wrong-error", fmt.Sprintf("`%s` failed with %q, which does not quote the first malformed line %q and its number %d (with the current wording: %q)", c.shell(), r.Err, expRaw[0], expLine[0], expect[0]), rep)
				}
			}
		}
	}
	// a long file: the malformed lines lie beyond the first 4096 bytes / have four-digit line numbers
	w.Explore("long-file", ExploreOpts{ShardDepth: 3}, func(x *Exec) {
		role := x.Choose(3, "input:role")
		at := []int{2, 3, 400, 1001, 1498}[x.Choose(5, "input:first-bad-line")]
		second := x.Choose(2, "input:second-bad-line")
		b1 := c09Bad[x.Choose(len(c09Bad), "input:bad-kind")]
		var sb strings.Builder
		var msgs []string
		var raws []string
		var nums []int
		line := 0
		emit := func(s string) { sb.WriteString(s + "\n"); line++ }
		for r := 0; line < 1500; r++ {
			if role == 1 {
				emit(fmt.Sprintf("20%02d/%02d/%02d:", 21+r/336, 1+(r/28)%12, 1+r%28))
			} else {
				emit(fmt.Sprintf("recipe %d:", r))
			}
			for e := 0; e < 3; e++ {
				if (len(nums) == 0 && line+1 >= at) || (second == 1 && len(nums) == 1 && line+1 >= nums[0]+7) {
					b := b1
					if len(nums) == 1 {
						b = c09Bad[3]
					}
					emit(b.Text)
					msgs = append(msgs, b.message(line))
					raws = append(raws, b.Text)
					nums = append(nums, line)
					continue
				}
				emit(fmt.Sprintf("  food/%d: %d", e, e+1))
			}
			if r%5 == 0 {
				emit("# a comment")
				emit("")
			}
		}
		full := sb.String()
		x.Case(fmt.Sprint("long", role, at, second, b1.Text), true)
		if len(nums) == 0 {
			hfail("long-file generator planted nothing (at=%d)", at)
		}
		if role == 2 {
			c := appCase{Args: []string{"lint", "file.yaml"}, Files: map[string]string{"file.yaml": full}}
			r := runApp(c)
			x.Obs(r.Key())
			x.w.binMustAgree(x, c, r, "C09|lint")
			cs := appCase{Args: []string{"lint", "--silent", "file.yaml"}, Files: c.Files}
			x.w.binMustAgree(x, cs, runApp(cs), "C09|lint --silent")
			got := splitLines(r.Stdout)
			ok := len(got) == len(nums)
			for i := 0; ok && i < len(got); i++ {
				ok = quotes(got[i], raws[i], nums[i])
			}
			if !ok || r.Panic != "" {
				x.Violate("C09|lint|long-file|wrong-messages", fmt.Sprintf("lint on a %d-line file with malformed lines %v prints:\n%s\nexpected (current wording):\n%s", line, nums, tailStr(r.Stdout, 600), strings.Join(msgs, "\n")), nil)
			}
			return
		}
		files := map[string]string{"food.yaml": "r1:\n  cal: 2\n", "log.yaml": "2021/01/24:\n  r1: 1\n"}
		cmds := c09DbCmds
		if role == 0 {
			files["food.yaml"] = full
		} else {
			files["log.yaml"] = full
			cmds = c09LogCmds
		}
		for _, cmd := range cmds {
			c := appCase{Args: append([]string{"--no-color"}, cmd...), Files: files}
			r := runApp(c)
			x.Obs(fmt.Sprint(r.Failed, r.Err))
			name := strings.Join(cmd, " ")
			x.w.binMustAgree(x, c, r, "C09|"+[]string{"book", "log"}[role]+"|"+name) // status and message as main() produces them
			if r.Panic != "" || !r.Failed || !quotes(r.Err, raws[0], nums[0]) {
				x.Violate("C09|"+[]string{"book", "log"}[role]+"|"+name+"|long-file|wrong-error", fmt.Sprintf("`%s` on a %d-line %s with the first malformed line %q at line %d: failed=%v error %q panic %q", name, line, []string{"book", "log"}[role], raws[0], nums[0], r.Failed, r.Err, firstLine(r.Panic)), nil)
				return
			}
		}
	})
	// long files with CRLF line ends: the two bytes of a line end may arrive in different reads of the 4096-byte buffer;
	// sixteen shifts of the whole file move every line end through every alignment
	w.Explore("long-file-crlf", ExploreOpts{ShardDepth: 2}, func(x *Exec) {
		shift := x.Choose(16, "layout:shift")
		le := x.Choose(3, "layout:line-ends") // CRLF, LF, CRLF with an LF-only malformed line
		eol := []string{"\r\n", "\n", "\r\n"}[le]
		mixed := le == 2
		var sb strings.Builder
		line := 0
		emit := func(s, e string) { sb.WriteString(s + e); line++ }
		emit("# "+strings.Repeat("p", shift), eol)
		var raws []string
		var nums []int
		for r := 0; line < 1200; r++ {
			emit(fmt.Sprintf("20%02d/%02d/%02d:", 21+r/336, 1+(r/28)%12, 1+r%28), eol)
			for e := 0; e < 3; e++ {
				if line == 700 || line == 1190 {
					b := c09Bad[(line/100)%len(c09Bad)]
					le := eol
					if mixed {
						le = "\n"
					}
					emit(b.Text, le)
					raws = append(raws, b.Text)
					nums = append(nums, line)
					continue
				}
				emit(fmt.Sprintf("  food/%d: %d", e, e+1), eol)
			}
		}
		full := sb.String()
		x.Case(fmt.Sprint("crlf", shift, eol == "\n", mixed), true)
		lc := appCase{Args: []string{"lint", "log.yaml"}, Files: map[string]string{"log.yaml": full}}
		lr := runApp(lc)
		x.Obs(lr.Key())
		got := splitLines(lr.Stdout)
		ok := len(got) == len(nums) && lr.Failed && lr.Panic == ""
		for i := 0; ok && i < len(got); i++ {
			ok = quotes(got[i], raws[i], nums[i])
		}
		if !ok {
			x.Violate("C09|lint|long-file-crlf|wrong-messages", fmt.Sprintf("lint on a %d-line file (line ends %q, first line %d bytes) with malformed lines %v prints:\n%s", line, eol, shift+2, nums, tailStr(lr.String(), 600)), nil)
			return
		}
		for _, cmd := range [][]string{{"print"}, {"reg"}, {"csv", "log"}, {"stats"}} {
			c := appCase{Args: append([]string{"--no-color"}, cmd...), Files: map[string]string{"food.yaml": "r1:\n  cal: 2\n", "log.yaml": full}}
			r := runApp(c)
			if r.Panic != "" || !r.Failed || !quotes(r.Err, raws[0], nums[0]) {
				x.Violate("C09|log|"+strings.Join(cmd, " ")+"|long-file-crlf|wrong-error", fmt.Sprintf("`%s` on a %d-line log (line ends %q, first line %d bytes) with the first malformed line %q at line %d: failed=%v error %q", strings.Join(cmd, " "), line, eol, shift+2, raws[0], nums[0], r.Failed, r.Err), nil)
				return
			}
		}
	})
	// many malformed lines: every one reported once, in file order; the exit status of the real program is non-zero for
	// every count (an exit status keeps eight bits: 256 and 512 findings must not read as success)
	w.Explore("many-malformed-lines", ExploreOpts{ShardDepth: 2}, func(x *Exec) {
		k := []int{1, 3, 255, 256, 257, 512, 1024}[x.Choose(7, "input:malformed-lines")]
		silent := x.Choose(2, "config:silent")
		var sb strings.Builder
		var raws []string
		var nums []int
		line := 0
		emit := func(s string) { sb.WriteString(s + "\n"); line++ }
		for i := 0; i < k; i++ {
			if i%3 == 0 {
				emit(fmt.Sprintf("rec%d:", i))
				emit("  good: 1")
			}
			if i%5 == 0 {
				emit("# comment")
				emit("")
			}
			b := c09Bad[i%len(c09Bad)]
			emit(b.Text)
			raws = append(raws, b.Text)
			nums = append(nums, line)
		}
		args := []string{"lint", "file.yaml"}
		if silent == 1 {
			args = []string{"lint", "--silent", "file.yaml"}
		}
		c := appCase{Args: args, Files: map[string]string{"file.yaml": sb.String()}}
		r := runApp(c)
		x.Obs(fmt.Sprint(r.Failed, len(r.Stdout)))
		x.Case(fmt.Sprint("many", k, silent), true)
		if r.Panic != "" || !r.Failed {
			x.Violate("C09|lint|many-malformed-lines|no-failure", fmt.Sprintf("`%s` on a file with %d malformed lines: failed=%v %s", strings.Join(args, " "), k, r.Failed, firstLine(r.Panic)), nil)
			return
		}
		if silent == 0 {
			got := splitLines(r.Stdout)
			ok := len(got) == k
			for i := 0; ok && i < k; i++ {
				ok = quotes(got[i], raws[i], nums[i])
			}
			if !ok {
				x.Violate("C09|lint|many-malformed-lines|wrong-messages", fmt.Sprintf("lint on a file with %d malformed lines prints %d lines:\n%s", k, len(got), tailStr(r.Stdout, 800)), nil)
				return
			}
		}
		x.w.binMustAgree(x, c, r, "C09|lint|many-malformed-lines")
	})
	if w.Tier == "quick" {
		// quick: only the layout deviations that move line numbers or change line ends (CRLF, gap lines, final newline)
		w.Explore("k<=1-layout-dev1", ExploreOpts{ShardDepth: 6, Budgets: map[string]int{"layout": 1, "layout:indent": 0, "layout:quote": 0, "layout:sep": 0, "layout:trail": 0}}, body(0, 1))
		w.Explore("k=2-default-layout", ExploreOpts{ShardDepth: 6, Budgets: map[string]int{"layout": 0}}, body(2, 2))
		return
	}
	// (k <= 2 under every single layout deviation on 2x2 skeletons does not finish within the half-hour deadline)
	w.Explore("k<=1-layout-dev1", ExploreOpts{ShardDepth: 6, Budgets: map[string]int{"layout": 1}}, body(0, 1))
	w.Explore("k=2-default-layout", ExploreOpts{ShardDepth: 6, Budgets: map[string]int{"layout": 0}}, body(2, 2))
}

func firstOr(s []string) string {
	if len(s) == 0 {
		return ""
	}
	return s[0]
}

// splitPhysical splits text into lines keeping their terminators.
func splitPhysical(text string) []string {
	var out []string
	for len(text) > 0 {
		i := strings.Index(text, "\n")
		if i < 0 {
			out = append(out, text)
			break
		}
		out = append(out, text[:i+1])
		text = text[i+1:]
	}
	return out
}
