package main

import (
	"fmt"
	"strings"

	"github.com/aquilax/hranoprovod-cli/v3/parser"
)

func init() { propChecks["C09"] = checkC09 }

type badLine struct {
	Text string
	Kind int // 0: no blank before the value, 1: value is not a number
	Qty  string
}

var c09Bad = []badLine{
	{"  foo:5", 0, ""},
	{"\tbar", 0, ""},
	{"- baz:1.5", 0, ""},
	{"  foo: abc", 1, "abc"},
	{"  a b: 1,5", 1, "1,5"},
	{"\tx: 1.2.3 ", 1, "1.2.3"},
	{"  - y: 12kg", 1, "12kg"},
}

func (b badLine) message(lineNo int) string {
	if b.Kind == 0 {
		return parser.NewErrorBadSyntax(lineNo, b.Text).Error()
	}
	return parser.NewErrorConversion(nil, b.Qty, lineNo, b.Text).Error()
}

var c09DbCmds = [][]string{
	{"reg"}, {"bal"}, {"report", "totals"}, {"report", "unresolved"}, {"report", "element-total", "cal"},
	{"csv", "database"}, {"csv", "database-resolved"}, {"summary", "2021/01/24"}, {"stats"}, {"bal", "-s", "cal"},
}
var c09LogCmds = [][]string{
	{"reg"}, {"bal"}, {"csv", "log"}, {"print"}, {"report", "totals"}, {"report", "quantity"}, {"report", "unresolved"},
	{"summary", "2021/01/24"}, {"stats"}, {"reg", "-s", "cal"}, {"reg", "-f", "."}, {"bal", "-c"},
}

func checkC09(w *Worker) {
	w.appInit()
	maxR, maxE, secondKinds := 2, 1, 2
	if w.Tier == "thorough" {
		maxR, maxE, secondKinds = 2, 2, len(c09Bad)
	}
	const goodBook = "r1:\n  cal: 2\n"
	const goodLog = "2021/01/24:\n  r1: 1\n"
	body := func(kmin, kmax int) func(x *Exec) {
		return func(x *Exec) {
			role := x.Choose(3, "input:role") // 0 book, 1 log, 2 linted file
			f := genSkeleton(x, maxR, maxE, role == 1)
			text, lines := renderFile(x, f, renderOpts{})
			eol := "\n"
			if strings.Contains(text, "\r\n") && !strings.Contains(strings.ReplaceAll(text, "\r\n", ""), "\n") {
				eol = "\r\n"
			}
			// physical lines -> plant k malformed lines after the first heading
			firstHeading := -1
			for i, l := range lines {
				if l.Kind == "heading" {
					firstHeading = i
					break
				}
			}
			k := kmin + x.Choose(kmax-kmin+1, "input:bad-lines")
			type planted struct {
				after int
				b     badLine
			}
			var pl []planted
			lo := firstHeading
			for j := 0; j < k; j++ {
				pos := lo + x.Choose(len(lines)-lo, "input:bad-position")
				nk := len(c09Bad)
				if j > 0 {
					nk = secondKinds // quick: the second planted line takes one shape of each kind
				}
				b := c09Bad[(x.Choose(nk, "input:bad-kind")*3)%len(c09Bad)]
				pl = append(pl, planted{pos, b})
				lo = pos
			}
			// rebuild the text line by line (original terminators are lost for simplicity: re-render with eol; a file without final newline is covered by C04)
			raw := splitPhysical(text)
			var out []string
			var expect []string
			lineNo := 0
			pi := 0
			for i := range raw {
				out = append(out, raw[i])
				lineNo++
				for pi < len(pl) && pl[pi].after == i {
					lineNo++
					out = append(out, pl[pi].b.Text+eol)
					expect = append(expect, pl[pi].b.message(lineNo))
					pi++
				}
			}
			if len(raw) > 0 && !strings.HasSuffix(raw[len(raw)-1], "\n") && k > 0 {
				// last original line had no terminator: give it one so the planted line is a line of its own
				x.Case("skip-no-final-newline", false)
				return
			}
			full := strings.Join(out, "")
			x.Case(full, k > 0)
			var files map[string]string
			var cmds [][]string
			switch role {
			case 0:
				files = map[string]string{"food.yaml": full, "log.yaml": goodLog}
				cmds = c09DbCmds
			case 1:
				files = map[string]string{"food.yaml": goodBook, "log.yaml": full}
				cmds = c09LogCmds
			default:
				files = map[string]string{"file.yaml": full, "food.yaml": goodBook, "log.yaml": goodLog}
			}
			x.Sample(map[string]interface{}{"role": role, "file": full, "expected_messages": expect})
			if role == 2 {
				for _, silent := range []bool{false, true} {
					args := []string{"lint"}
					if silent {
						args = append(args, "--silent")
					}
					args = append(args, "file.yaml")
					c := appCase{Args: args, Files: files}
					r := runApp(c)
					x.Obs(r.Key())
					want := strings.Join(expect, "\n")
					if len(expect) > 0 {
						want += "\n"
					}
					if k == 0 && !silent {
						want = "No errors found\n"
					}
					rep := map[string]interface{}{"cmd": c.shell(), "observed": r.String(), "expected_stdout": want}
					if r.Panic != "" {
						x.Violate("C09|lint|panic", fmt.Sprintf("`%s`: %s", c.shell(), r.String()), rep)
						return
					}
					if r.Stdout != want {
						kind := "wrong-messages"
						if k > 0 && strings.HasPrefix(r.Stdout, want) && strings.Contains(r.Stdout[len(want):], "No errors found") {
							kind = "no-errors-found-printed-after-errors"
						}
						x.Violate("C09|lint|"+kind, fmt.Sprintf("`%s`\nprinted:\n%s\nexpected:\n%s", c.shell(), r.Stdout, want), rep)
						return
					}
				}
				return
			}
			for _, cmd := range cmds {
				c := appCase{Args: append([]string{"--no-color"}, cmd...), Files: files}
				r := runApp(c)
				x.Obs(r.Key())
				name := strings.Join(cmd, " ")
				roleName := []string{"book", "log"}[role]
				rep := map[string]interface{}{"cmd": c.shell(), "observed": r.String(), "expected_error": firstOr(expect)}
				if r.Panic != "" {
					x.Violate("C09|"+roleName+"|"+name+"|panic", fmt.Sprintf("`%s` panicked: %s", c.shell(), r.String()), rep)
					continue
				}
				if k == 0 {
					if r.Failed {
						x.Violate("C09|"+roleName+"|"+name+"|well-formed-file-rejected", fmt.Sprintf("`%s`: %s", c.shell(), r.String()), rep)
					}
					continue
				}
				if !r.Failed {
					x.Violate("C09|"+roleName+"|"+name+"|malformed-entry-not-reported", fmt.Sprintf("`%s` succeeded although line %q is malformed; expected error %q\nstdout:\n%s", c.shell(), pl[0].b.Text, expect[0], r.Stdout), rep)
					continue
				}
				if r.Err != expect[0] {
					x.Violate("C09|"+roleName+"|"+name+"|wrong-error", fmt.Sprintf("`%s` failed with %q, expected the message for the first malformed line: %q", c.shell(), r.Err, expect[0]), rep)
				}
			}
		}
	}
	if w.Tier == "quick" {
		w.Explore("k<=1-layout-dev1", ExploreOpts{ShardDepth: 6, Budgets: map[string]int{"layout": 1}}, body(0, 1))
		w.Explore("k=2-default-layout", ExploreOpts{ShardDepth: 6, Budgets: map[string]int{"layout": 0}}, body(2, 2))
		return
	}
	w.Explore("k<=2-layout-dev1", ExploreOpts{ShardDepth: 6, Budgets: map[string]int{"layout": 1}}, body(0, 2))
}

func firstOr(s []string) string {
	if len(s) == 0 {
		return ""
	}
	return s[0]
}

// splitPhysical splits text into lines keeping their terminators.
func splitPhysical(text string) []string {
	var out []string
	for len(text) > 0 {
		i := strings.Index(text, "\n")
		if i < 0 {
			out = append(out, text)
			break
		}
		out = append(out, text[:i+1])
		text = text[i+1:]
	}
	return out
}
