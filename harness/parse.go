package main

// Parsers for the report layouts. They split from the right / at fixed markers so
// that names with inner blanks, colons and commas parse unambiguously.

import (
	"fmt"
	"regexp"
	"strings"
)

var ansiRe = regexp.MustCompile("\x1b\\[[0-9;]*m")

func stripANSI(s string) string { return ansiRe.ReplaceAllString(s, "") }

func splitLines(s string) []string {
	if s == "" {
		return nil
	}
	s = strings.TrimSuffix(s, "\n")
	return strings.Split(s, "\n")
}

// lastFields splits off n whitespace-separated fields from the right of s.
func lastFields(s string, n int) (rest string, fields []string, ok bool) {
	fields = make([]string, n)
	for i := n - 1; i >= 0; i-- {
		s = strings.TrimRight(s, " ")
		j := strings.LastIndexAny(s, " \t")
		if j < 0 {
			if i == 0 && s != "" {
				fields[0] = s
				return "", fields, true
			}
			return "", nil, false
		}
		fields[i] = s[j+1:]
		s = s[:j+1]
	}
	return s, fields, true
}

// parseRegister parses register output (escape codes already removed) in one of the
// layouts "default" (also the old reporter) and "left-aligned".
func parseRegister(out string, layout string) ([]rDay, error) {
	var days []rDay
	var cur *rDay
	inTotals := false
	for ln, line := range splitLines(out) {
		bad := func(what string) error { return fmt.Errorf("line %d %q: %s", ln+1, line, what) }
		if layout == "left-aligned" {
			switch {
			case strings.HasPrefix(line, "-----") && strings.Contains(line, "TOTAL"):
				if cur == nil {
					return nil, bad("totals before a date")
				}
				inTotals = true
			case strings.HasPrefix(line, "  "):
				if cur == nil {
					return nil, bad("row before a date")
				}
				body := line[2:]
				if inTotals {
					// "%10.2f %10.2f = %10.2f  name"
					body = strings.TrimLeft(body, " ")
					i := strings.Index(body, " ")
					if i < 0 {
						return nil, bad("total row")
					}
					pos := body[:i]
					rest := strings.TrimLeft(body[i:], " ")
					j := strings.Index(rest, " = ")
					if j < 0 {
						return nil, bad("total row without ' = '")
					}
					neg := strings.TrimSpace(rest[:j])
					rest = strings.TrimLeft(rest[j+3:], " ")
					k := strings.Index(rest, "  ")
					if k < 0 {
						return nil, bad("total row without name")
					}
					cur.Totals = append(cur.Totals, rTotal{Name: rest[k+2:], Pos: normNum(pos), Neg: normNum(neg), Sum: normNum(rest[:k])})
					continue
				}
				body = strings.TrimLeft(body, " ")
				i := strings.Index(body, " ")
				if i < 0 {
					return nil, bad("row without name")
				}
				val := body[:i]
				rest := body[i:]
				if strings.HasPrefix(rest, "    ") {
					if len(cur.Foods) == 0 {
						return nil, bad("ingredient before food")
					}
					f := &cur.Foods[len(cur.Foods)-1]
					f.Ings = append(f.Ings, rRow{rest[4:], normNum(val)})
				} else if strings.HasPrefix(rest, "  ") {
					cur.Foods = append(cur.Foods, rFood{Name: rest[2:], Qty: normNum(val)})
				} else {
					return nil, bad("unexpected spacing")
				}
			default:
				days = append(days, rDay{Date: line})
				cur = &days[len(days)-1]
				inTotals = false
			}
			continue
		}
		switch {
		case strings.HasPrefix(line, "\t-- TOTAL"):
			if cur == nil {
				return nil, bad("totals before a date")
			}
			inTotals = true
		case strings.HasPrefix(line, "\t\t"):
			if cur == nil {
				return nil, bad("row before a date")
			}
			body := line[2:]
			if inTotals {
				i := strings.LastIndex(body, " =")
				if i < 0 {
					return nil, bad("total row without ' ='")
				}
				sum := strings.TrimSpace(body[i+2:])
				rest, f, ok := lastFields(body[:i], 2)
				if !ok {
					return nil, bad("total row")
				}
				cur.Totals = append(cur.Totals, rTotal{Name: strings.TrimSpace(rest), Pos: normNum(f[0]), Neg: normNum(f[1]), Sum: normNum(sum)})
				continue
			}
			rest, f, ok := lastFields(body, 1)
			if !ok || len(cur.Foods) == 0 {
				return nil, bad("ingredient row")
			}
			fd := &cur.Foods[len(cur.Foods)-1]
			fd.Ings = append(fd.Ings, rRow{strings.TrimSpace(rest), normNum(f[0])})
		case strings.HasPrefix(line, "\t"):
			if cur == nil {
				return nil, bad("row before a date")
			}
			i := strings.LastIndex(line, " :")
			if i < 0 {
				return nil, bad("food row without ' :'")
			}
			cur.Foods = append(cur.Foods, rFood{Name: strings.TrimRight(line[1:i], " "), Qty: normNum(strings.TrimSpace(line[i+2:]))})
		default:
			days = append(days, rDay{Date: line})
			cur = &days[len(days)-1]
			inTotals = false
		}
	}
	return days, nil
}
