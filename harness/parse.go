package main

// Parsers for the report layouts. They split from the right / at fixed markers so
// that names with inner blanks, colons and commas parse unambiguously.

import (
	"fmt"
	"regexp"
	"strings"
)

var ansiRe = regexp.MustCompile("\x1b\\[[0-9;]*m")

func stripANSI(s string) string { return ansiRe.ReplaceAllString(s, "") }

func splitLines(s string) []string {
	if s == "" {
		return nil
	}
	s = strings.TrimSuffix(s, "\n")
	return strings.Split(s, "\n")
}

// lastFields splits off n whitespace-separated fields from the right of s.
func lastFields(s string, n int) (rest string, fields []string, ok bool) {
	fields = make([]string, n)
	for i := n - 1; i >= 0; i-- {
		s = strings.TrimRight(s, " ")
		j := strings.LastIndexAny(s, " \t")
		if j < 0 {
			if i == 0 && s != "" {
				fields[0] = s
				return "", fields, true
			}
			return "", nil, false
		}
		fields[i] = s[j+1:]
		s = s[:j+1]
	}
	return s, fields, true
}

// parseRegister parses register output (escape codes already removed) in one of the
// layouts "default" (also the old reporter) and "left-aligned".
func parseRegister(out string, layout string) ([]rDay, error) {
	var days []rDay
	var cur *rDay
	inTotals := false
	for ln, line := range splitLines(out) {
		bad := func(what string) error { return fmt.Errorf("line %d %q: %s", ln+1, line, what) }
		if layout == "left-aligned" {
			switch {
			case strings.HasPrefix(line, "-----") && strings.Contains(line, "TOTAL"):
				if cur == nil {
					return nil, bad("totals before a date")
				}
				inTotals = true
			case strings.HasPrefix(line, "  "):
				if cur == nil {
					return nil, bad("row before a date")
				}
				body := line[2:]
				if inTotals {
					// "%10.2f %10.2f = %10.2f  name"
					body = strings.TrimLeft(body, " ")
					i := strings.Index(body, " ")
					if i < 0 {
						return nil, bad("total row")
					}
					pos := body[:i]
					rest := strings.TrimLeft(body[i:], " ")
					j := strings.Index(rest, " = ")
					if j < 0 {
						return nil, bad("total row without ' = '")
					}
					neg := strings.TrimSpace(rest[:j])
					rest = strings.TrimLeft(rest[j+3:], " ")
					k := strings.Index(rest, "  ")
					if k < 0 {
						return nil, bad("total row without name")
					}
					cur.Totals = append(cur.Totals, rTotal{Name: rest[k+2:], Pos: normNum(pos), Neg: normNum(neg), Sum: normNum(rest[:k])})
					continue
				}
				body = strings.TrimLeft(body, " ")
				i := strings.Index(body, " ")
				if i < 0 {
					return nil, bad("row without name")
				}
				val := body[:i]
				rest := body[i:]
				if strings.HasPrefix(rest, "    ") {
					if len(cur.Foods) == 0 {
						return nil, bad("ingredient before food")
					}
					f := &cur.Foods[len(cur.Foods)-1]
					f.Ings = append(f.Ings, rRow{rest[4:], normNum(val)})
				} else if strings.HasPrefix(rest, "  ") {
					cur.Foods = append(cur.Foods, rFood{Name: rest[2:], Qty: normNum(val)})
				} else {
					return nil, bad("unexpected spacing")
				}
			default:
				days = append(days, rDay{Date: line})
				cur = &days[len(days)-1]
				inTotals = false
			}
			continue
		}
		switch {
		case strings.HasPrefix(line, "\t-- TOTAL"):
			if cur == nil {
				return nil, bad("totals before a date")
			}
			inTotals = true
		case strings.HasPrefix(line, "\t\t"):
			if cur == nil {
				return nil, bad("row before a date")
			}
			body := line[2:]
			if inTotals {
				i := strings.LastIndex(body, " =")
				if i < 0 {
					return nil, bad("total row without ' ='")
				}
				sum := strings.TrimSpace(body[i+2:])
				rest, f, ok := lastFields(body[:i], 2)
				if !ok {
					return nil, bad("total row")
				}
				cur.Totals = append(cur.Totals, rTotal{Name: strings.TrimSpace(rest), Pos: normNum(f[0]), Neg: normNum(f[1]), Sum: normNum(sum)})
				continue
			}
			rest, f, ok := lastFields(body, 1)
			if !ok || len(cur.Foods) == 0 {
				return nil, bad("ingredient row")
			}
			fd := &cur.Foods[len(cur.Foods)-1]
			fd.Ings = append(fd.Ings, rRow{strings.TrimSpace(rest), normNum(f[0])})
		case strings.HasPrefix(line, "\t"):
			if cur == nil {
				return nil, bad("row before a date")
			}
			i := strings.LastIndex(line, " :")
			if i < 0 {
				return nil, bad("food row without ' :'")
			}
			cur.Foods = append(cur.Foods, rFood{Name: strings.TrimRight(line[1:i], " "), Qty: normNum(strings.TrimSpace(line[i+2:]))})
		default:
			days = append(days, rDay{Date: line})
			cur = &days[len(days)-1]
			inTotals = false
		}
	}
	return days, nil
}

// parseCSV is an own RFC 4180 reader (LF or CRLF record ends accepted). It is strict:
// a quote inside an unquoted field, or text after a closing quote, is an error.
func parseCSV(s string) ([][]string, error) {
	var recs [][]string
	var rec []string
	i := 0
	n := len(s)
	for i < n {
		// one field
		var field []byte
		if s[i] == '"' {
			i++
			for {
				if i >= n {
					return nil, fmt.Errorf("unterminated quoted field in record %d", len(recs)+1)
				}
				if s[i] == '"' {
					if i+1 < n && s[i+1] == '"' {
						field = append(field, '"')
						i += 2
						continue
					}
					i++
					break
				}
				field = append(field, s[i])
				i++
			}
			if i < n && s[i] != ',' && s[i] != '\n' && s[i] != '\r' {
				return nil, fmt.Errorf("text after closing quote in record %d", len(recs)+1)
			}
		} else {
			for i < n && s[i] != ',' && s[i] != '\n' && s[i] != '\r' {
				if s[i] == '"' {
					return nil, fmt.Errorf("bare quote in unquoted field in record %d", len(recs)+1)
				}
				field = append(field, s[i])
				i++
			}
		}
		rec = append(rec, string(field))
		if i >= n {
			recs = append(recs, rec)
			rec = nil
			break
		}
		switch s[i] {
		case ',':
			i++
			if i >= n { // trailing comma: empty last field, record not terminated
				rec = append(rec, "")
				recs = append(recs, rec)
				rec = nil
			}
		case '\r':
			if i+1 < n && s[i+1] == '\n' {
				i += 2
			} else {
				return nil, fmt.Errorf("bare CR in record %d", len(recs)+1)
			}
			recs = append(recs, rec)
			rec = nil
		case '\n':
			i++
			recs = append(recs, rec)
			rec = nil
		}
	}
	if rec != nil {
		recs = append(recs, rec)
	}
	return recs, nil
}

var totalsRowRe = regexp.MustCompile(`^ *(-?[0-9.]+) +(-?[0-9.]+) +(-?[0-9.]+)  (.*)$`)

// parseTotals parses `report totals` into name -> (pos, neg, sum).
func parseTotals(out string) (map[string]rTotal, []string, error) {
	m := map[string]rTotal{}
	var order []string
	for ln, line := range splitLines(out) {
		if ln == 0 {
			if strings.Join(strings.Fields(line), " ") != "positive negative sum element" {
				return nil, nil, fmt.Errorf("unexpected header %q", line)
			}
			continue
		}
		g := totalsRowRe.FindStringSubmatch(line)
		if g == nil {
			return nil, nil, fmt.Errorf("line %d %q: not a totals row", ln+1, line)
		}
		if _, dup := m[g[4]]; dup {
			return nil, nil, fmt.Errorf("element %q listed twice", g[4])
		}
		m[g[4]] = rTotal{g[4], normNum(g[1]), normNum(g[2]), normNum(g[3])}
		order = append(order, g[4])
	}
	return m, order, nil
}

// parseValueName parses rows "<number>\t<name>" (report quantity, element-total, reg -s -g).
func parseValueName(out string) ([]rRow, error) {
	var rows []rRow
	for ln, line := range splitLines(out) {
		i := strings.Index(line, "\t")
		if i < 0 {
			return nil, fmt.Errorf("line %d %q: no tab", ln+1, line)
		}
		rows = append(rows, rRow{line[i+1:], normNum(strings.TrimSpace(line[:i]))})
	}
	return rows, nil
}

type singleRow struct {
	Date, Name, Pos, Neg, Sum string
}

// parseRegSingle parses `reg -s X`: "%s %20s %10.2f %10.2f =%10.2f" (the negative column is printed negated).
func parseRegSingle(out string, dateLen int) ([]singleRow, error) {
	var rows []singleRow
	for ln, line := range splitLines(out) {
		i := strings.LastIndex(line, " =")
		if i < 0 || len(line) < dateLen+1 {
			return nil, fmt.Errorf("line %d %q: not a single-element row", ln+1, line)
		}
		rest, f, ok := lastFields(line[:i], 2)
		if !ok || len(rest) < dateLen {
			return nil, fmt.Errorf("line %d %q: not a single-element row", ln+1, line)
		}
		rows = append(rows, singleRow{Date: rest[:dateLen], Name: strings.TrimSpace(rest[dateLen:]), Pos: normNum(f[0]), Neg: normNum(f[1]), Sum: normNum(strings.TrimSpace(line[i+2:]))})
	}
	return rows, nil
}

// parseStats parses the stats report into label -> value text.
func parseStats(out string) map[string]string {
	m := map[string]string{}
	for _, line := range splitLines(out) {
		i := strings.Index(line, ":")
		if i < 0 {
			continue
		}
		m[strings.TrimSpace(line[:i])] = strings.TrimSpace(line[i+1:])
	}
	return m
}
