package main

import (
	"fmt"
	"math/big"
	"strings"
	"time"
)

func init() { propChecks["C14"] = checkC14 }

// note texts: letters, digits, inner blanks and inner punctuation (no ':' - it would turn a text note
// into a named one - and nothing the tokenizer trims at the ends of a line)
var c14NoteTexts = []string{"ok 1", "free text 2", "ate 50% of the usual portion", "3.5% fat", "100%", "a, b (c) / d + e = f!", "%d %s %v %", "don't & won't", "бележка 7", "x%y%z"}

var c14Formats = []string{"2006/01/02", "2006-01-02", "02.01.2006", "Jan 2 2006"}

// c14LargeDays: days of the large log; c14Uniform: when set, renders the file (instead of the per-line layout choices)
var c14LargeDays = 400
var c14Uniform func(x *Exec, f absFile) string

var c14UniformNames = []string{"plain", "comment-in-first-column-before-every-entry", "bare-hash-before-every-heading", "blank-line-before-every-line", "crlf", "tab-indent", "dash-entries", "trailing-blanks", "quoted-names", "comment-in-first-column-after-every-second-entry", "blank-line-with-spaces-before-every-entry"}

// c14UniformDay writes one day with layout variation v on every line
func c14UniformDay(sb *strings.Builder, r absRecord, v int) {
	eol, ind, trail := "\n", "  ", ""
	switch v {
	case 4:
		eol = "\r\n"
	case 5:
		ind = "\t"
	case 6:
		ind = "  - "
	case 7:
		trail = " \t"
	}
	if v == 2 {
		sb.WriteString("#" + eol)
	}
	if v == 3 {
		sb.WriteString(eol)
	}
	sb.WriteString(r.Header + ":" + trail + eol)
	for i, it := range r.Items {
		switch {
		case v == 1, v == 9 && i%2 == 0 && i > 0:
			sb.WriteString("# a remark in the first column" + eol)
		case v == 3:
			sb.WriteString(eol)
		case v == 10:
			sb.WriteString("   " + eol)
		}
		if it.IsNote {
			if it.Name != "" {
				sb.WriteString(ind + "# " + it.Name + ": " + it.NoteText + trail + eol)
			} else {
				sb.WriteString(ind + "# " + it.NoteText + trail + eol)
			}
			continue
		}
		name := it.Name
		if v == 8 {
			name = `"` + name + `"`
		}
		sb.WriteString(ind + name + ": " + it.NumText + trail + eol)
	}
}

func checkC14(w *Worker) {
	w.appInit()
	dev, maxItems, maxRec := 1, 2, 2
	if w.Tier == "thorough" {
		dev, maxItems, maxRec = 1, 3, 2 // (3 days x 3 items does not finish within the deadline)
	}
	dates := []time.Time{time.Date(2021, 1, 24, 0, 0, 0, 0, time.UTC), time.Date(2021, 1, 25, 0, 0, 0, 0, time.UTC), time.Date(2021, 1, 24, 0, 0, 0, 0, time.UTC)}
	fmts, nPeriods := c14Formats, 3
	body := func(maxRec int, names []int) func(x *Exec) {
		fmts, nPeriods := fmts, nPeriods
		return func(x *Exec) {
			fi := x.Choose(len(fmts), "config:date-format")
			period := x.Choose(nPeriods, "config:period") // none, one day, two different bounds, end only, begin only
			format := fmts[fi]
			nrec := 0
			if maxRec > 0 {
				nrec = 1 + x.Choose(maxRec, "input:records")
			}
			ni := names[x.Choose(len(names), "input:name-and-qty")]
			qi := ni % len(c13Qty)
			var f absFile
			k := 0
			if maxRec == 0 {
				// large log: 400 days x 4 items, crossing the input and output buffers many times
				days := c14LargeDays
				if c14Uniform != nil {
					days *= 1 + 2*x.Choose(2, "input:size") // 1400 or 4200 days
				}
				for r := 0; r < days; r++ { // more than a year: the same day-of-year occurs twice
					d := dates[0].AddDate(0, 0, r)
					if r == 7 {
						d = dates[0] // the period's day occurs twice
					}
					f = append(f, absRecord{Header: d.Format(format), Items: []absItem{
						{IsNote: true, Name: "mood", NoteText: c14NoteTexts[r%len(c14NoteTexts)]},
						{Name: c13Names[(ni+r)%len(c13Names)], NumText: c13Qty[(qi+r)%len(c13Qty)]},
						{Name: "plain", NumText: fmt.Sprint(r)},
						{Name: c13Names[(ni+r)%len(c13Names)], NumText: "0.25"}}})
					if r == 3 || r == 150 {
						// a wide day: more distinct foods than a slice's first capacities, early foods repeated late
						wide := &f[len(f)-1]
						for j := 0; j < 9+r/10; j++ {
							wide.Items = append(wide.Items, absItem{Name: fmt.Sprintf("wide/%02d", j), NumText: fmt.Sprint(j + 1)})
						}
						wide.Items = append(wide.Items, absItem{Name: "wide/00", NumText: "0.5"}, absItem{Name: "plain", NumText: "2"}, absItem{Name: "wide/07", NumText: "0.25"})
					}
				}
			}
			for r := 0; r < nrec; r++ {
				rec := absRecord{Header: dates[r].Format(format)}
				n := x.Choose(maxItems+1, "input:items")
				for e := 0; e < n; e++ {
					k++
					switch x.Choose(4, "input:kind") {
					case 0:
						rec.Items = append(rec.Items, absItem{Name: c13Names[(ni+k)%len(c13Names)], NumText: c13Qty[(qi+k)%len(c13Qty)]})
					case 1: // a food that repeats within the day: merged
						rec.Items = append(rec.Items, absItem{Name: c13Names[ni], NumText: c13Qty[qi]})
					case 2:
						rec.Items = append(rec.Items, absItem{IsNote: true, Name: "mood", NoteText: c14NoteTexts[(ni+k)%len(c14NoteTexts)]})
					default:
						rec.Items = append(rec.Items, absItem{IsNote: true, NoteText: c14NoteTexts[(ni+k+1)%len(c14NoteTexts)]})
					}
				}
				f = append(f, rec)
			}
			var text string
			if c14Uniform != nil {
				text = c14Uniform(x, f)
			} else {
				text, _ = renderFile(x, f, renderOpts{})
			}
			global := []string{"--date-format", format}
			env := map[string]string{}
			extraFiles := map[string]string{}
			if format == "2006/01/02" && x.Choose(2, "config:format-flag-absent") == 1 {
				global = nil
			}
			// where the date format comes from: the flag, HR_DATE_FORMAT, or the configuration file (a deviation of class "src")
			switch x.Choose(3, "src:format-source") {
			case 1:
				global = nil
				env["HR_DATE_FORMAT"] = format
			case 2:
				global = []string{"--config", "fmt.cfg"}
				extraFiles["fmt.cfg"] = "[Global]\nDateFormat=" + format + "\n"
			}
			selected := f
			if period == 1 {
				d := dates[0].Format(format)
				global = append(global, "-b", d, "-e", d)
				selected = nil
				for _, r := range f {
					if r.Header == d {
						selected = append(selected, r)
					}
				}
			}
			if period == 2 {
				d0, d1 := dates[0].Format(format), dates[1].Format(format)
				global = append(global, "-b", d0, "-e", d1)
				selected = nil
				for _, r := range f {
					if r.Header == d0 || r.Header == d1 {
						selected = append(selected, r)
					}
				}
			}
			if period == 3 || period == 4 {
				// open periods: the order of the days is the order of their headings read under the format
				bound, _ := time.Parse(format, dates[period-3].Format(format))
				if period == 3 {
					global = append(global, "-e", dates[0].Format(format))
				} else {
					global = append(global, "-b", dates[1].Format(format))
				}
				selected = nil
				for _, r := range f {
					t, err := time.Parse(format, r.Header)
					if err != nil {
						hfail("C14: heading %q does not parse under %q", r.Header, format)
					}
					if (period == 3 && !t.After(bound)) || (period == 4 && !t.Before(bound)) {
						selected = append(selected, r)
					}
				}
			}
			x.Case(text+"|"+format+fmt.Sprint(period), len(f) > 0)
			c1 := appCase{Args: append(append([]string{}, global...), "print"), Files: withFiles(map[string]string{"food.yaml": "", "log.yaml": text}, extraFiles), Env: env}
			p1 := runApp(c1)
			x.Obs(p1.Key())
			x.Sample(map[string]interface{}{"cmd": c1.shell(), "printed": p1.Stdout})
			fmtName := "format " + format
			rep := map[string]interface{}{"cmd": c1.shell(), "observed": p1.String()}
			if p1.Failed || p1.Panic != "" {
				x.Violate("C14|"+fmtName+"|print-failed", fmt.Sprintf("`%s`: %s", c1.shell(), p1.String()), rep)
				return
			}
			// read back with the tool itself, same options
			c2 := appCase{Args: c1.Args, Files: withFiles(map[string]string{"food.yaml": "", "log.yaml": p1.Stdout}, extraFiles), Env: env}
			p2 := runApp(c2)
			if p2.Failed || p2.Panic != "" {
				x.Violate("C14|"+fmtName+"|printed-log-unreadable", fmt.Sprintf("`%s` printed\n%s\nand cannot read it back under the same options: %s", c1.shell(), p1.Stdout, p2.String()), rep)
				return
			}
			if p2.Stdout != p1.Stdout {
				x.Violate("C14|"+fmtName+"|not-a-fixpoint", fmt.Sprintf("`%s` printed\n%s\nprinting that again gives\n%s", c1.shell(), p1.Stdout, p2.Stdout), rep)
				return
			}
			// the printed log parses to the selected days, merged foods, 2-decimal quantities, notes
			recs, errs, ret, pan := parseAll(p1.Stdout)
			if pan != "" || ret != nil || len(errs) > 0 {
				x.Violate("C14|"+fmtName+"|printed-log-malformed", fmt.Sprintf("printed log\n%s\nerrors %v %v %s", p1.Stdout, errs, ret, pan), rep)
				return
			}
			want := ""
			for _, r := range selected {
				want += fmt.Sprintf("%q{", r.Header)
				var order []string
				sum := map[string]float64{}
				for _, it := range r.Items {
					if it.IsNote {
						continue
					}
					if _, ok := sum[it.Name]; !ok {
						order = append(order, it.Name)
					}
					sum[it.Name] += refNumber(it.NumText)
				}
				for _, n := range order {
					want += fmt.Sprintf("%q=%s;", n, normNum(fmt.Sprintf("%0.2f", sum[n])))
				}
				for _, it := range r.Items {
					if it.IsNote {
						want += fmt.Sprintf("#%q=%q;", it.Name, it.NoteText)
					}
				}
				want += "} "
			}
			got := ""
			for _, r := range recs {
				got += fmt.Sprintf("%q{", r.Header)
				for _, e := range r.Els {
					got += fmt.Sprintf("%q=%s;", e.Name, normNum(fmt.Sprintf("%0.2f", e.Value)))
				}
				for _, n := range r.Notes {
					got += fmt.Sprintf("#%q=%q;", n.Name, n.Value)
				}
				got += "} "
			}
			if got != want {
				kind := "reads-back-differently"
				if len(recs) == len(selected) && len(recs) > 0 && recs[0].Header != selected[0].Header {
					kind = "date-not-in-the-requested-format"
				}
				x.Violate("C14|"+fmtName+"|"+kind, fmt.Sprintf("`%s`\ninput:\n%s\nprinted:\n%s\nreads back as %s\nexpected      %s", c1.shell(), text, p1.Stdout, got, want), rep)
				return
			}
			// csv log of the printed log = csv log of the original, at two decimals
			ca := runApp(appCase{Args: append(append([]string{}, global...), "csv", "log"), Files: withFiles(map[string]string{"food.yaml": "", "log.yaml": text}, extraFiles), Env: env})
			cb := runApp(appCase{Args: append(append([]string{}, global...), "csv", "log"), Files: withFiles(map[string]string{"food.yaml": "", "log.yaml": p1.Stdout}, extraFiles), Env: env})
			ra, e1 := parseCSV(ca.Stdout)
			rb, e2 := parseCSV(cb.Stdout)
			if ca.Failed || cb.Failed || e1 != nil || e2 != nil || len(ra) != len(rb) {
				x.Violate("C14|"+fmtName+"|csv-log-differs", fmt.Sprintf("csv log of the original: %s\ncsv log of the printed log: %s", ca.String(), cb.String()), rep)
				return
			}
			for i := range ra {
				va, _ := new(big.Rat).SetString(ra[i][2])
				vb, _ := new(big.Rat).SetString(rb[i][2])
				d := new(big.Rat).Sub(va, vb)
				if ra[i][0] != rb[i][0] || ra[i][1] != rb[i][1] || d.Abs(d).Cmp(big.NewRat(5, 1000)) > 0 {
					x.Violate("C14|"+fmtName+"|csv-log-differs", fmt.Sprintf("row %d: original %q, printed log %q", i+1, ra[i], rb[i]), rep)
					return
				}
			}
		}
	}
	all := make([]int, len(c13Names))
	for i := range all {
		all[i] = i
	}
	w.Explore("large-log", ExploreOpts{ShardDepth: 2, Budgets: map[string]int{"layout": 0, "src": 0}}, body(0, []int{0, 3, 5, 13, 20}))
	// long logs (130 KiB .. 600 KiB: beyond any "small file" shortcut, beyond 64 and 128 KiB blocks) with one layout
	// variation applied to every line of the file - wherever a reader cuts the file, the variation is there
	c14LargeDays = 1400
	c14Uniform = func(x *Exec, f absFile) string {
		v := x.Choose(len(c14UniformNames), "input:layout-of-every-line")
		var sb strings.Builder
		for _, r := range f {
			c14UniformDay(&sb, r, v)
		}
		return sb.String()
	}
	w.Explore("long-logs-one-layout-on-every-line", ExploreOpts{ShardDepth: 3, Budgets: map[string]int{"layout": 0, "src": 0}}, body(0, []int{0, 13}))
	c14LargeDays, c14Uniform = 400, nil
	w.Explore("names-x-formats-default-layout", ExploreOpts{ShardDepth: 6, Budgets: map[string]int{"layout": 0, "src": 0}}, body(maxRec, all))
	w.Explore(fmt.Sprintf("layout-dev%d", dev), ExploreOpts{ShardDepth: 6, Budgets: map[string]int{"layout": dev, "src": 0}}, body(1, []int{2, 4}))
	// formats without a year and with a two-digit year (headings parse to year 0 / to 19xx-20xx), and periods open at one end
	fmts, nPeriods = []string{"01/02", "Jan 2", "06.01.02", "2006/01/02", "2.1.2006"}, 5
	ylNames := []int{2, 4}
	if w.Tier == "thorough" {
		ylNames = all
	}
	w.Explore("yearless-formats-x-open-periods", ExploreOpts{ShardDepth: 6, Budgets: map[string]int{"layout": 0, "src": 0}}, body(maxRec, ylNames))
	w.Explore("large-log-yearless-formats-x-open-periods", ExploreOpts{ShardDepth: 2, Budgets: map[string]int{"layout": 0, "src": 0}}, body(0, []int{3}))
	fmts, nPeriods = c14Formats, 3
	// merge shapes: every day of 2..5 entries over three foods (and a note), the i-th entry with quantity 2^i, so that the
	// printed quantity of a food tells exactly which lines were folded into it
	w.Explore("merge-shapes", ExploreOpts{ShardDepth: 4, Budgets: map[string]int{"layout": 0}}, func(x *Exec) {
		n := 2 + x.Choose(4, "input:entries")
		foods := []string{"coffee/cup", "bread", "ел 2"}
		var items []absItem
		sum := map[string]float64{}
		var order []string
		for i := 0; i < n; i++ {
			f := foods[x.Choose(len(foods), "input:food")]
			q := float64(int(1) << uint(i))
			if i%3 == 2 {
				q = -q
			}
			if _, ok := sum[f]; !ok {
				order = append(order, f)
			}
			sum[f] += q
			items = append(items, absItem{Name: f, NumText: fmt.Sprint(q)})
			if i == 1 {
				items = append(items, absItem{IsNote: true, Name: "mood", NoteText: "ok 1"})
			}
		}
		log := absFile{{Header: "2021/01/24", Items: items}, {Header: "2021/01/25", Items: []absItem{{Name: foods[0], NumText: "1"}}}}
		text, _ := renderFile(x, log, renderOpts{})
		c := appCase{Args: []string{"print"}, Files: map[string]string{"food.yaml": "", "log.yaml": text}}
		r := runApp(c)
		x.Obs(r.Key())
		x.Case(text, len(order) < n)
		want := "2021/01/24:\n  # mood: ok 1\n"
		for _, f := range order {
			want += fmt.Sprintf("  %s: %0.2f\n", f, sum[f])
		}
		want += "2021/01/25:\n  " + foods[0] + ": 1.00\n"
		recs, errs, ret, pan := parseAll(r.Stdout)
		got := ""
		for _, rec := range recs {
			got += rec.Header + ":\n"
			for _, nt := range rec.Notes {
				got += "  # " + nt.Name + ": " + nt.Value + "\n"
			}
			for _, e := range rec.Els {
				got += fmt.Sprintf("  %s: %0.2f\n", e.Name, e.Value)
			}
		}
		if r.Failed || pan != "" || ret != nil || len(errs) > 0 || got != want {
			x.Violate("C14|merge-shapes|reads-back-differently", fmt.Sprintf("`%s`\ninput:\n%s\nprinted:\n%s\nreads back as\n%s\nexpected\n%s", c.shell(), text, r.String(), got, want), map[string]interface{}{"cmd": c.shell(), "observed": r.String()})
		}
	})
	// every special scenario with finite amounts (harness/specials.go): print, read back, print again
	var c14Specials []specialScenario
	for _, sc := range specialsFor(w.Tier) {
		if sc.Name != "quantities-non-finite" {
			c14Specials = append(c14Specials, sc)
		}
	}
	w.Explore("special-scenarios", ExploreOpts{ShardDepth: 2}, func(x *Exec) {
		sc := c14Specials[x.Choose(len(c14Specials), "input:scenario")]
		format := []string{"2006/01/02", "02.01.2006"}[x.Choose(2, "config:date-format")]
		lg := append(absLog{}, sc.Log...)
		for i := range lg {
			t, err := time.Parse("2006/01/02", lg[i].Date)
			if err != nil {
				hfail("scenario date %q", lg[i].Date)
			}
			lg[i].Date = t.Format(format)
		}
		text := renderLog(lg)
		// a period taken from the scenario's own days: none, from its second day on, up to its second day, second to third
		period := x.Choose(4, "config:period")
		pargs := []string{"--date-format", format}
		if period > 0 && len(sc.Log) >= 3 {
			lo, hi := -1<<62, 1<<62
			if period != 2 {
				lo = dayNumber(sc.Log[1].Date)
				pargs = append(pargs, "-b", lg[1].Date)
			}
			if period == 2 {
				hi = dayNumber(sc.Log[1].Date)
				pargs = append(pargs, "-e", lg[1].Date)
			}
			if period == 3 {
				hi = dayNumber(sc.Log[2].Date)
				pargs = append(pargs, "-e", lg[2].Date)
			}
			var sel absLog
			for i, d := range sc.Log {
				if n := dayNumber(d.Date); n >= lo && n <= hi {
					sel = append(sel, lg[i])
				}
			}
			lg = sel
		} else if period > 0 {
			x.Case("skip: fewer than three days", false)
			return
		}
		c1 := appCase{Args: append(pargs, "print"), Files: map[string]string{"food.yaml": "", "log.yaml": text}}
		p1 := runApp(c1)
		x.Obs(p1.Key())
		x.Case(sc.Name+format+fmt.Sprint(period), len(lg) > 0)
		rep := map[string]interface{}{"scenario": sc.Name, "cmd": tailStr(c1.shell(), 2000), "observed": tailStr(p1.String(), 2000)}
		if p1.Failed || p1.Panic != "" {
			x.Violate("C14|special-scenario|print-failed", fmt.Sprintf("scenario %s: %s", sc.Name, tailStr(p1.String(), 600)), rep)
			return
		}
		p2 := runApp(appCase{Args: c1.Args, Files: map[string]string{"food.yaml": "", "log.yaml": p1.Stdout}})
		if p2.Failed || p2.Stdout != p1.Stdout {
			x.Violate("C14|special-scenario|not-a-fixpoint", fmt.Sprintf("scenario %s: printing the printed log gives\n%s\ninstead of\n%s", sc.Name, tailStr(p2.String(), 800), tailStr(p1.Stdout, 800)), rep)
			return
		}
		recs, errs, ret, pan := parseAll(p1.Stdout)
		want, got := "", ""
		for _, d := range lg {
			want += fmt.Sprintf("%q{", d.Date)
			var order []string
			sum := map[string]float64{}
			for _, e := range d.Entries {
				if _, ok := sum[e.Name]; !ok {
					order = append(order, e.Name)
				}
				sum[e.Name] += e.Val
			}
			for _, n := range order {
				want += fmt.Sprintf("%q=%s;", n, normNum(fmt.Sprintf("%0.2f", sum[n])))
			}
			for _, n := range d.Notes {
				want += fmt.Sprintf("#%q=%q;", n.Name, n.Value)
			}
			want += "} "
		}
		for _, r := range recs {
			got += fmt.Sprintf("%q{", r.Header)
			for _, e := range r.Els {
				got += fmt.Sprintf("%q=%s;", e.Name, normNum(fmt.Sprintf("%0.2f", e.Value)))
			}
			for _, n := range r.Notes {
				got += fmt.Sprintf("#%q=%q;", n.Name, n.Value)
			}
			got += "} "
		}
		if pan != "" || ret != nil || len(errs) > 0 || got != want {
			x.Violate("C14|special-scenario|reads-back-differently", fmt.Sprintf("scenario %s (%s)\nprinted:\n%s\nreads back as %s\nexpected      %s\n%v %v %s", sc.Name, format, tailStr(p1.Stdout, 1200), tailStr(got, 1500), tailStr(want, 1500), errs, ret, pan), rep)
		}
	})
	w.Explore("format-from-flag-env-config", ExploreOpts{ShardDepth: 6, Budgets: map[string]int{"layout": 0}}, body(1, []int{2}))
}

func withFiles(base, extra map[string]string) map[string]string {
	for k, v := range extra {
		base[k] = v
	}
	return base
}
