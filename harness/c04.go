package main

import (
	"fmt"
	"math"
	"strings"

	shared "github.com/aquilax/hranoprovod-cli/v3"
	"github.com/aquilax/hranoprovod-cli/v3/parser"
)

func init() { propChecks["C04"] = checkC04 }

type parsedRec struct {
	Header string
	Els    []shared.Element
	Notes  []shared.MetadataPair
}

func recsString(rs []parsedRec) string {
	var sb strings.Builder
	for _, r := range rs {
		sb.WriteString(fmt.Sprintf("%q{", r.Header))
		for _, e := range r.Els {
			v := e.Value
			if v == 0 {
				v = 0 // -0 and +0 are the same number
			}
			sb.WriteString(fmt.Sprintf("%q=%v(%x);", e.Name, v, math.Float64bits(v)))
		}
		for _, n := range r.Notes {
			sb.WriteString(fmt.Sprintf("#%q=%q;", n.Name, n.Value))
		}
		sb.WriteString("} ")
	}
	return sb.String()
}

func wantRecs(f absFile) []parsedRec {
	var out []parsedRec
	for _, r := range f {
		pr := parsedRec{Header: r.Header}
		for _, it := range r.Items {
			if it.IsNote {
				pr.Notes = append(pr.Notes, shared.MetadataPair{Name: it.Name, Value: it.NoteText})
			} else {
				pr.Els = append(pr.Els, shared.Element{Name: it.Name, Value: refNumber(it.NumText)})
			}
		}
		out = append(out, pr)
	}
	return out
}

// parseAll runs the real callback parser and records the exact callback sequence.
func parseAll(text string) (recs []parsedRec, errs []string, ret error, pan string) {
	defer func() {
		if r := recover(); r != nil {
			switch r.(type) {
			case abortNotMine, harnessError:
				panic(r)
			}
			pan = fmt.Sprint(r)
		}
	}()
	var kept []*shared.ParserNode
	ret = parser.ParseStreamCallback(strings.NewReader(text), parser.NewDefaultConfig(), func(n *shared.ParserNode, err error) (bool, error) {
		if err != nil {
			errs = append(errs, err.Error())
			return false, nil
		}
		pr := parsedRec{Header: n.Header, Els: append([]shared.Element{}, n.Elements...)}
		if n.Metadata != nil {
			pr.Notes = append(pr.Notes, (*n.Metadata)...)
		}
		recs = append(recs, pr)
		kept = append(kept, n)
		return false, nil
	})
	// a consumer may keep the nodes (the book loader does): what they hold when parsing is over must be what was delivered
	for i, n := range kept {
		later := parsedRec{Header: n.Header, Els: n.Elements}
		if n.Metadata != nil {
			later.Notes = *n.Metadata
		}
		if recsString([]parsedRec{later}) != recsString(recs[i:i+1]) {
			recs[i].Header += fmt.Sprintf(" [CHANGED AFTER DELIVERY: the node kept by the consumer now reads %s]", recsString([]parsedRec{later}))
		}
	}
	return
}

// genSkeleton: R records x up to E items each, item kinds {entry, named note, text note}.
func genSkeleton(x *Exec, maxR, maxE int, dates bool) absFile {
	var f absFile
	R := 1 + x.Choose(maxR, "input:records")
	k := 0
	for r := 0; r < R; r++ {
		h := fmt.Sprintf("rec%d", r+1)
		if dates {
			h = fmt.Sprintf("2021/01/%02d", 24+r)
		}
		rec := absRecord{Header: h}
		E := x.Choose(maxE+1, "input:items")
		for e := 0; e < E; e++ {
			k++
			switch x.Choose(3, "input:kind") {
			case 0:
				rec.Items = append(rec.Items, absItem{Name: fmt.Sprintf("food%d", k), NumText: fmt.Sprintf("%d.5", k)})
			case 1:
				rec.Items = append(rec.Items, absItem{IsNote: true, Name: "mood", NoteText: fmt.Sprintf("ok %d%% (fine), really", k)})
			default:
				rec.Items = append(rec.Items, absItem{IsNote: true, NoteText: fmt.Sprintf("free text %d / 2 + 2 = 4!", k)})
			}
		}
		f = append(f, rec)
	}
	return f
}

func checkC04(w *Worker) {
	w.appInit()
	maxR, maxE := 2, 2
	if w.Tier == "thorough" {
		maxR, maxE = 3, 3
	}
	earlierParse := false
	// files parsed right before the file under test, in the same process (a command reads the book, then the log): an
	// aborted parse, a parse that ends without a final newline, a file beyond the buffers, a wide record
	var bigEarlier strings.Builder
	for r := 0; r < 300; r++ {
		bigEarlier.WriteString(fmt.Sprintf("earlier/%03d:\n  # note: n%d\n  element %d: %d\n", r, r, r, r))
	}
	earlierTexts := []string{"e1:\n  a: 1\n  nosep\n  b: 2\ne2:\n  c: 3\n", "e1:\n  # k: v\n  a: 1\n  b: 2", bigEarlier.String(),
		"wide:\n  a: 1\n  b: 2\n  c: 3\n  d: 4\n  e: 5\n  f: 6\n  g: 7\n  h: 8\n  i: 9\n  # note: x\n  j: 10\n", "e1:\n  a: q\n"}
	check := func(x *Exec, f absFile, text string, what string) {
		if earlierParse {
			ei := x.Choose(len(earlierTexts), "event:earlier-parse")
			stop := x.Choose(2, "event:earlier-parse-stopped-by-callback") == 1
			func() {
				defer func() {
					if r := recover(); r != nil {
						rethrowSentinel(r)
					}
				}()
				parser.ParseStreamCallback(strings.NewReader(earlierTexts[ei]), parser.NewDefaultConfig(), func(n *shared.ParserNode, err error) (bool, error) {
					return stop, err
				})
			}()
		}
		recs, errs, ret, pan := parseAll(text)
		got, want := recsString(recs), recsString(wantRecs(f))
		x.Obs(got, fmt.Sprint(errs), fmt.Sprint(ret), pan)
		x.Sample(map[string]interface{}{"file": text, "parsed": got})
		rep := map[string]interface{}{"file": text, "abstract": f.String(), "parsed": got, "expected": want, "errors": errs}
		if pan != "" || ret != nil || len(errs) > 0 {
			x.Violate("C04|"+what+"|well-formed-file-rejected", fmt.Sprintf("well-formed file\n%q\nabstract %s\nerrors %v, returned %v, panic %q", text, f, errs, ret, pan), rep)
			return
		}
		if got != want {
			x.Violate("C04|"+what+"|wrong-records", fmt.Sprintf("file\n%q\nparsed   %s\nexpected %s", text, got, want), rep)
		}
	}
	// A: every name and every number literal at every position, default layout
	w.Explore("names-numbers", ExploreOpts{ShardDepth: 5, Budgets: map[string]int{"layout": 0}}, func(x *Exec) {
		f := genSkeleton(x, maxR, maxE, false)
		var slots []*absItem
		for ri := range f {
			for ii := range f[ri].Items {
				if !f[ri].Items[ii].IsNote {
					slots = append(slots, &f[ri].Items[ii])
				}
			}
		}
		pos := x.Choose(len(slots)+1, "input:special-position") // last = a heading
		ni := x.Choose(len(genNames), "input:name")
		if pos == len(slots) {
			f[len(f)-1].Header = genNames[ni]
		} else {
			slots[pos].Name = genNames[ni]
			slots[pos].NumText = genNums[x.Choose(len(genNums), "input:number")]
		}
		text, _ := renderFile(x, f, renderOpts{})
		x.Case(f.String(), len(slots) > 0)
		check(x, f, text, "names-numbers")
	})
	// A2: numbers with many significant digits (more than a float64 mantissa holds, up to and beyond 64-bit integers):
	// every position of the decimal point in each digit string, each sign, plain and with an exponent
	longDigits := []string{"9007199254740993", "9405090880450125", "30091186058528706", "1234567890123456789", "9999999999999999999",
		"18446744073709551615", "18446744073709551616", "4503599627370497", "72057594037927937", "123456789012345", "100000000000000000000000001"}
	w.Explore("long-numbers", ExploreOpts{ShardDepth: 3, Budgets: map[string]int{"layout": 0}}, func(x *Exec) {
		ds := longDigits[x.Choose(len(longDigits), "input:digits")]
		pt := x.Choose(len(ds)+2, "input:decimal-point") // before digit pt; len = trailing point; len+1 = none
		sign := []string{"", "-", "+"}[x.Choose(3, "input:sign")]
		exp := []string{"", "e-3", "E5"}[x.Choose(3, "input:exponent")]
		num := ds
		if pt <= len(ds) {
			num = ds[:pt] + "." + ds[pt:]
		}
		num = sign + num + exp
		f := absFile{{Header: "rec1", Items: []absItem{{Name: "fat", NumText: "2"}, {Name: "x 1", NumText: num}}}, {Header: "rec2", Items: []absItem{{Name: "long", NumText: num}}}}
		text, _ := renderFile(x, f, renderOpts{})
		x.Case(num, true)
		check(x, f, text, "long-numbers")
	})
	// A3: every possible last and first byte of a multi-byte letter at the ends of a name (the tokenizer trims bytes, the
	// names are UTF-8): three blocks of 64 letters whose encodings end in 0x80..0xBF, at the end, at the start, alone
	w.Explore("utf8-letters-at-the-ends-of-names", ExploreOpts{ShardDepth: 3, Budgets: map[string]int{"layout": 1}}, func(x *Exec) {
		base := []rune{0x0400, 0x00C0, 0x30C0}[x.Choose(3, "input:block")]
		k := x.Choose(64, "input:letter")
		pos := x.Choose(3, "input:position")
		ch := string(base + rune(k))
		name := []string{"ab" + ch, ch + "ab", ch}[pos]
		f := absFile{{Header: name, Items: []absItem{{Name: name, NumText: "1.5"}, {Name: "x " + name, NumText: "2"}, {IsNote: true, Name: name, NoteText: "note " + ch}}},
			{Header: "rec " + name, Items: []absItem{{Name: name + "/" + name, NumText: "-1"}}}}
		text, _ := renderFile(x, f, renderOpts{})
		x.Case(text, true)
		check(x, f, text, "utf8-ends")
	})
	// A4: the same small files after an earlier parse in the same process
	earlierParse = true
	w.Explore("after-an-earlier-parse", ExploreOpts{ShardDepth: 4, Budgets: map[string]int{"layout": 1}}, func(x *Exec) {
		f := genSkeleton(x, 2, 2, false)
		text, _ := renderFile(x, f, renderOpts{})
		x.Case(text, len(f) > 0)
		check(x, f, text, "after-an-earlier-parse")
	})
	earlierParse = false
	// A5: two different numbers in one file that agree in a long prefix, in a long suffix, or in everything but one digit
	// (whatever remembers a number by part of its text remembers the wrong one)
	numPairs := [][2]string{{"0.333333", "0.333334"}, {"-1234.56", "-1234.57"}, {"1.250000e-5", "1.250000e-6"}, {"123456789", "123456780"}, {"0.10000001", "0.10000002"},
		{"10000000.5", "10000001.5"}, {"1234567.25", "2234567.25"}, {"0.5000000000001", "0.5000000000002"}, {"99999999", "99999998"}, {"1e10", "1e11"}, {"-0.0000001", "-0.0000002"}, {"12345678", "12345678.5"}}
	w.Explore("numbers-that-share-most-of-their-text", ExploreOpts{ShardDepth: 3, Budgets: map[string]int{"layout": 0}}, func(x *Exec) {
		pr := numPairs[x.Choose(len(numPairs), "input:pair")]
		shape := x.Choose(4, "input:placement") // same record, two records, two records reversed, first one twice then the other
		var f absFile
		switch shape {
		case 0:
			f = absFile{{Header: "rec1", Items: []absItem{{Name: "a", NumText: pr[0]}, {Name: "b", NumText: pr[1]}, {Name: "c", NumText: pr[0]}}}}
		case 1:
			f = absFile{{Header: "rec1", Items: []absItem{{Name: "a", NumText: pr[0]}}}, {Header: "rec2", Items: []absItem{{Name: "a", NumText: pr[1]}}}}
		case 2:
			f = absFile{{Header: "rec1", Items: []absItem{{Name: "a", NumText: pr[1]}}}, {Header: "rec2", Items: []absItem{{Name: "a", NumText: pr[0]}}}}
		default:
			f = absFile{{Header: "rec1", Items: []absItem{{Name: "a", NumText: pr[0]}, {Name: "b", NumText: pr[0]}}}, {Header: "rec2", Items: []absItem{{Name: "c", NumText: pr[1]}, {Name: "d", NumText: "2"}}}}
		}
		text, _ := renderFile(x, f, renderOpts{})
		x.Case(fmt.Sprint(pr, shape), true)
		check(x, f, text, "similar-numbers")
	})
	// B: every file that departs from the default layout in at most dev places
	layoutBody := func(r, e int) func(x *Exec) {
		return func(x *Exec) {
			f := genSkeleton(x, r, e, false)
			text, _ := renderFile(x, f, renderOpts{})
			x.Case(text, len(f) > 0)
			check(x, f, text, "layout")
		}
	}
	if w.Tier == "quick" {
		w.Explore("layout-dev2", ExploreOpts{ShardDepth: 5, Budgets: map[string]int{"layout": 2}}, layoutBody(2, 2))
	} else {
		// the full 3x3 skeleton space is too large for three deviations: widen one dimension at a time
		w.Explore("layout-dev2-3x2", ExploreOpts{ShardDepth: 5, Budgets: map[string]int{"layout": 2}}, layoutBody(3, 2))
		w.Explore("layout-dev2-1x3", ExploreOpts{ShardDepth: 5, Budgets: map[string]int{"layout": 2}}, layoutBody(1, 3))
		w.Explore("layout-dev3-2x1", ExploreOpts{ShardDepth: 5, Budgets: map[string]int{"layout": 3}}, layoutBody(2, 1))
		w.Explore("layout-dev3-1x2", ExploreOpts{ShardDepth: 5, Budgets: map[string]int{"layout": 3}}, layoutBody(1, 2))
	}
	// C: exotic names and literals under every single layout deviation
	w.Explore("names-numbers-x-layout-dev1", ExploreOpts{ShardDepth: 3, Budgets: map[string]int{"layout": 1}}, func(x *Exec) {
		ni := x.Choose(len(genNames), "input:name")
		nu := x.Choose(len(genNums), "input:number")
		f := absFile{{Header: genNames[(ni+1)%len(genNames)], Items: []absItem{
			{Name: genNames[ni], NumText: genNums[nu]},
			{IsNote: true, Name: "mood", NoteText: "ok 1"},
			{Name: "fat", NumText: "2"}}},
			{Header: "rec2", Items: []absItem{{Name: genNames[ni], NumText: "-" + strings.TrimLeft(genNums[nu], "+-")}}}}
		text, _ := renderFile(x, f, renderOpts{})
		x.Case(text, true)
		check(x, f, text, "names-x-layout")
	})
	// E: files longer than the scanner's 4096-byte buffer (and than 64 KiB in total): records delivered
	// early must still be intact at the end (names are substrings of lines read long before)
	w.Explore("long-files", ExploreOpts{ShardDepth: 2, Budgets: map[string]int{"layout": 1}}, func(x *Exec) {
		nrec := []int{150, 700, 3000}[x.Choose(3, "input:records")]
		nm := genNames[x.Choose(len(genNames), "input:name")]
		var f absFile
		for r := 0; r < nrec; r++ {
			f = append(f, absRecord{Header: fmt.Sprintf("rec %d %s", r, nm), Items: []absItem{
				{Name: fmt.Sprintf("%s %d", nm, r), NumText: fmt.Sprintf("%d.25", r)},
				{IsNote: true, Name: "n", NoteText: fmt.Sprintf("note %d", r)},
				{Name: fmt.Sprintf("second/%d", r), NumText: "-1"}}})
		}
		var sb strings.Builder
		eol := "\n"
		if x.Choose(2, "input:crlf") == 1 {
			eol = "\r\n"
		}
		if eol == "\r\n" && nrec == 150 {
			// the two bytes of a line end may arrive in different reads: shift the whole file through every alignment
			sb.WriteString("# " + strings.Repeat("p", x.Choose(26, "layout:shift")) + eol)
		}
		for _, r := range f {
			sb.WriteString(r.Header + ":" + eol)
			for _, it := range r.Items {
				if it.IsNote {
					sb.WriteString("  # " + it.Name + ": " + it.NoteText + eol)
				} else {
					sb.WriteString("  " + it.Name + ": " + it.NumText + eol)
				}
			}
		}
		text := sb.String()
		x.Case(fmt.Sprint(nrec, nm, eol == "\n"), true)
		recs, errs, ret, pan := parseAll(text)
		got, want := recsString(recs), recsString(wantRecs(f))
		x.Obs(fmt.Sprint(len(recs), errs, ret, pan, hash64([]byte(got))))
		if pan != "" || ret != nil || len(errs) > 0 {
			x.Violate("C04|long-files|well-formed-file-rejected", fmt.Sprintf("%d records, %d bytes: errors %v %v %s", nrec, len(text), errs, ret, pan), map[string]interface{}{"records": nrec, "name": nm})
			return
		}
		if got != want {
			first := 0
			wr := wantRecs(f)
			for first < len(recs) && first < len(wr) && recsString(recs[first:first+1]) == recsString(wr[first:first+1]) {
				first++
			}
			detail := fmt.Sprintf("file of %d records (%d bytes): %d records parsed; first difference at record %d", nrec, len(text), len(recs), first)
			if first < len(recs) && first < len(wr) {
				detail += fmt.Sprintf(": parsed %s, expected %s", recsString(recs[first:first+1]), recsString(wr[first:first+1]))
			}
			x.Violate("C04|long-files|wrong-records", detail, map[string]interface{}{"records": nrec, "name": nm, "bytes": len(text)})
			return
		}
		// the same through csv database (streams) and csv database-resolved (keeps every node until the end)
		for _, cmd := range [][]string{{"csv", "database"}, {"csv", "database-resolved"}} {
			c := appCase{Args: cmd, Files: map[string]string{"food.yaml": text}}
			r := runApp(c)
			if r.Failed || r.Panic != "" {
				x.Violate("C04|long-files|app-failed", fmt.Sprintf("`hranoprovod-cli %s` on %d records: %s", strings.Join(cmd, " "), nrec, tailStr(r.String(), 400)), nil)
				return
			}
			rows, err := parseCSV(r.Stdout)
			if err != nil || len(rows) != 2*nrec {
				x.Violate("C04|long-files|app-wrong-row-count", fmt.Sprintf("`%s`: %d rows for %d records x 2 entries (%v)", strings.Join(cmd, " "), len(rows), nrec, err), nil)
				return
			}
			seen := map[string]bool{}
			for _, row := range rows {
				seen[row[0]+"\x00"+row[1]] = true
			}
			for _, r := range f {
				for _, it := range r.Items {
					if !it.IsNote && !seen[r.Header+"\x00"+it.Name] {
						x.Violate("C04|long-files|app-row-missing", fmt.Sprintf("`%s` on %d records: no row for (%q, %q)", strings.Join(cmd, " "), nrec, r.Header, it.Name), nil)
						return
					}
				}
			}
		}
	})
	// G: wide records: more entries than a slice's first capacities (8, 16, 32), followed by further records
	w.Explore("wide-records", ExploreOpts{ShardDepth: 2, Budgets: map[string]int{"layout": 1}}, func(x *Exec) {
		W := []int{8, 9, 10, 16, 17, 33, 70}[x.Choose(7, "input:entries")]
		follow := x.Choose(3, "input:following-records")
		var f absFile
		first := absRecord{Header: "wide"}
		for j := 0; j < W; j++ {
			first.Items = append(first.Items, absItem{Name: fmt.Sprintf("food/%d", j+1), NumText: fmt.Sprintf("%d.5", j+1)})
			if j == 4 {
				first.Items = append(first.Items, absItem{IsNote: true, Name: "n", NoteText: "in the middle"})
			}
		}
		f = append(f, first)
		for r := 0; r < follow; r++ {
			f = append(f, absRecord{Header: fmt.Sprintf("next%d", r), Items: []absItem{{Name: "drink/1", NumText: "-1"}, {Name: "drink/2", NumText: "-2"}, {Name: "drink/3", NumText: "-3"}}})
		}
		text, _ := renderFile(x, f, renderOpts{})
		x.Case(fmt.Sprint("wide", W, follow, len(text)), true)
		check(x, f, text, "wide-records")
	})
	// F: single lines longer than the 4096-byte buffers but within the documented 64 KiB limit, in every line role
	w.Explore("long-lines", ExploreOpts{ShardDepth: 2}, func(x *Exec) {
		n := []int{4090, 4095, 4096, 4097, 5000, 8192, 20000, 65000}[x.Choose(8, "input:line-bytes")]
		role := x.Choose(5, "input:role") // entry name, heading, comment line, named note value, text note
		crlf := x.Choose(2, "input:crlf")
		long := strings.Repeat("lorem ipsum dolor sit amet ", n/27+1)[:n]
		long = strings.TrimRight(long, " ") + "z"
		f := absFile{{Header: "first", Items: []absItem{{Name: "a", NumText: "1"}}}, {Header: "second", Items: []absItem{{Name: "b", NumText: "2"}, {Name: "c", NumText: "3"}}}}
		comment := ""
		switch role {
		case 0:
			f[1].Items[0].Name = long
		case 1:
			f[1].Header = long
		case 2:
			comment = "# " + long
		case 3:
			f[1].Items = append([]absItem{{IsNote: true, Name: "n", NoteText: long}}, f[1].Items...)
		default:
			f[1].Items = append([]absItem{{IsNote: true, NoteText: long}}, f[1].Items...)
		}
		eol := "\n"
		if crlf == 1 {
			eol = "\r\n"
		}
		var sb strings.Builder
		for ri, r := range f {
			sb.WriteString(r.Header + ":" + eol)
			if ri == 1 && comment != "" {
				sb.WriteString(comment + eol)
			}
			for _, it := range r.Items {
				switch {
				case it.IsNote && it.Name != "":
					sb.WriteString("  # " + it.Name + ": " + it.NoteText + eol)
				case it.IsNote:
					sb.WriteString("  # " + it.NoteText + eol)
				default:
					sb.WriteString("  " + it.Name + ": " + it.NumText + eol)
				}
			}
		}
		text := sb.String()
		x.Case(fmt.Sprint("long-line", n, role, crlf), true)
		recs, errs, ret, pan := parseAll(text)
		got, want := recsString(recs), recsString(wantRecs(f))
		x.Obs(fmt.Sprint(len(recs), errs != nil, ret, pan, hash64([]byte(got))))
		roleName := []string{"entry name", "heading", "comment line", "named note", "text note"}[role]
		if pan != "" || ret != nil || len(errs) > 0 {
			x.Violate("C04|long-lines|well-formed-file-rejected", fmt.Sprintf("file with a %d-byte %s: errors %v, returned %v, panic %q", n, roleName, tailStr(fmt.Sprint(errs), 300), ret, pan), map[string]interface{}{"line_bytes": n, "role": roleName})
			return
		}
		if got != want {
			x.Violate("C04|long-lines|wrong-records", fmt.Sprintf("file with a %d-byte %s: %d records parsed, expected %d; parsed %s", n, roleName, len(recs), len(f), tailStr(got, 400)), map[string]interface{}{"line_bytes": n, "role": roleName})
		}
	})
	// D: the same through the real commands (csv database for books, csv log and print for logs)
	appDev := 1
	w.Explore("app-slice", ExploreOpts{ShardDepth: 5, Budgets: map[string]int{"layout": appDev}}, func(x *Exec) {
		role := x.Choose(2, "input:role")
		f := genSkeleton(x, 2, 2, role == 1)
		ni := x.Choose(len(genNames), "input:name")
		for ri := range f {
			for ii := range f[ri].Items {
				if !f[ri].Items[ii].IsNote {
					f[ri].Items[ii].Name = genNames[(ni+ii+ri)%len(genNames)]
				}
			}
		}
		text, _ := renderFile(x, f, renderOpts{})
		x.Case(text, len(f) > 0)
		var c appCase
		var want [][]string
		if role == 0 {
			c = appCase{Args: []string{"csv", "database"}, Files: map[string]string{"food.yaml": text}}
			for _, r := range f {
				for _, it := range r.Items {
					if !it.IsNote {
						want = append(want, []string{r.Header, it.Name, fN(rat(refNumber(it.NumText)), 2)})
					}
				}
			}
		} else {
			c = appCase{Args: []string{"csv", "log"}, Files: map[string]string{"food.yaml": "", "log.yaml": text}}
			for _, r := range f {
				seen := map[string]bool{}
				for _, it := range r.Items {
					if !it.IsNote {
						if seen[it.Name] {
							x.Case("skip-dup", false)
							return
						}
						seen[it.Name] = true
						want = append(want, []string{strings.ReplaceAll(r.Header, "/", "-"), it.Name, fN(rat(refNumber(it.NumText)), 3)})
					}
				}
			}
		}
		r := runApp(c)
		x.Obs(r.Key())
		rep := map[string]interface{}{"cmd": c.shell(), "observed": r.String()}
		if r.Failed || r.Panic != "" {
			x.Violate("C04|app|well-formed-file-rejected", fmt.Sprintf("`%s`: %s", c.shell(), r.String()), rep)
			return
		}
		got, err := parseCSV(r.Stdout)
		if err != nil {
			x.Violate("C04|app|csv-unreadable", fmt.Sprintf("`%s`: %v\n%s", c.shell(), err, r.Stdout), rep)
			return
		}
		for i := range got {
			if len(got[i]) == 3 {
				got[i][2] = normNum(got[i][2])
			}
		}
		if fmt.Sprintf("%q", got) != fmt.Sprintf("%q", want) {
			x.Violate("C04|app|wrong-rows", fmt.Sprintf("`%s`\nrows     %q\nexpected %q", c.shell(), got, want), rep)
		}
	})
}
