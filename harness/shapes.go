package main

// One master list of command shapes, so that no check forgets a command or a flag variant that
// another check knows about. Checks select by attribute.

type cmdShape struct {
	Args   []string
	Db     bool // reads the recipe book
	Log    bool // reads the log
	Period bool // honours the global --begin/--end
	OwnBE  bool // has --begin/--end of its own
	Lint   bool
}

const shapeDate = "2021/01/24"

var allShapes = []cmdShape{
	{Args: []string{"reg"}, Db: true, Log: true, Period: true, OwnBE: true},
	{Args: []string{"reg", "--internal-template-name", "left-aligned"}, Db: true, Log: true, Period: true, OwnBE: true},
	{Args: []string{"reg", "--use-old-reg-reporter"}, Db: true, Log: true, Period: true, OwnBE: true},
	{Args: []string{"reg", "--totals-only"}, Db: true, Log: true, Period: true, OwnBE: true},
	{Args: []string{"reg", "--no-totals"}, Db: true, Log: true, Period: true, OwnBE: true},
	{Args: []string{"reg", "--shorten"}, Db: true, Log: true, Period: true, OwnBE: true},
	{Args: []string{"reg", "-s", "cal"}, Db: true, Log: true, Period: true, OwnBE: true},
	{Args: []string{"reg", "-s", "cal", "--csv"}, Db: true, Log: true, Period: true, OwnBE: true},
	{Args: []string{"reg", "-s", "cal", "-g"}, Db: true, Log: true, Period: true, OwnBE: true},
	{Args: []string{"reg", "-f", "r"}, Db: true, Log: true, Period: true, OwnBE: true},
	// pairs of flags that are implemented in different places and meet in one run
	{Args: []string{"reg", "-s", "cal", "-g", "--csv"}, Db: true, Log: true, Period: true, OwnBE: true},
	{Args: []string{"reg", "-s", "cal", "--no-totals"}, Db: true, Log: true, Period: true, OwnBE: true},
	{Args: []string{"reg", "--shorten", "--totals-only"}, Db: true, Log: true, Period: true, OwnBE: true},
	{Args: []string{"reg", "--use-old-reg-reporter", "--shorten"}, Db: true, Log: true, Period: true, OwnBE: true},
	{Args: []string{"reg", "-f", "r", "--csv"}, Db: true, Log: true, Period: true, OwnBE: true},
	{Args: []string{"bal", "-c", "--collapse-last"}, Db: true, Log: true, Period: true, OwnBE: true},
	{Args: []string{"bal", "-s", "cal", "--collapse-last"}, Db: true, Log: true, Period: true, OwnBE: true},
	{Args: []string{"bal"}, Db: true, Log: true, Period: true, OwnBE: true},
	{Args: []string{"bal", "-c"}, Db: true, Log: true, Period: true, OwnBE: true},
	{Args: []string{"bal", "--collapse-last"}, Db: true, Log: true, Period: true, OwnBE: true},
	{Args: []string{"bal", "-s", "cal"}, Db: true, Log: true, Period: true, OwnBE: true},
	{Args: []string{"bal", "-s", "cal", "-c"}, Db: true, Log: true, Period: true, OwnBE: true},
	{Args: []string{"csv", "log"}, Log: true, Period: true, OwnBE: true},
	{Args: []string{"csv", "database"}, Db: true},
	{Args: []string{"csv", "database-resolved"}, Db: true},
	{Args: []string{"print"}, Log: true, Period: true, OwnBE: true},
	{Args: []string{"report", "totals"}, Db: true, Log: true, Period: true},
	{Args: []string{"report", "quantity"}, Log: true, Period: true},
	{Args: []string{"report", "quantity", "--desc"}, Log: true, Period: true},
	{Args: []string{"report", "unresolved"}, Db: true, Log: true, Period: true},
	{Args: []string{"report", "element-total", "cal"}, Db: true},
	{Args: []string{"report", "element-total", "--desc", "cal"}, Db: true},
	{Args: []string{"summary", shapeDate}, Db: true, Log: true},
	{Args: []string{"stats"}, Db: true, Log: true},
	{Args: []string{"lint", "log.yaml"}, Log: true, Lint: true},
	{Args: []string{"lint", "--silent", "log.yaml"}, Log: true, Lint: true},
	{Args: []string{"lint", "food.yaml"}, Db: true, Lint: true},
}

func shapeArgs(filter func(s cmdShape) bool) [][]string {
	var out [][]string
	for _, s := range allShapes {
		if filter(s) {
			out = append(out, s.Args)
		}
	}
	return out
}
