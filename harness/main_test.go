package main

import (
	"os"
	"testing"
	"time"
)

// registry of property checks; each file registers itself in init().
var propChecks = map[string]func(w *Worker){}

func TestVerifWorker(t *testing.T) {
	if os.Getenv("VERIF_PROP") == "" {
		t.Skip("only meaningful under /verif/check")
	}
	start := time.Now()
	w := newWorkerFromEnv()
	f, ok := propChecks[w.Prop]
	if !ok {
		fatalHarness("no check registered for property %q", w.Prop)
	}
	w.startWatchdog(120 * time.Second)
	f(w)
	w.finish(start)
}
