package main

// Grammar-level generator: abstract files (ground truth) rendered to text under
// layout choices made by the explorer (class "layout:*", usually under a deviation
// budget: choice 0 is the default layout of the README).

import (
	"fmt"
	"math/big"
	"strings"
)

type absItem struct {
	IsNote   bool
	Name     string // entry name, or note name ("" for the `# text` form)
	NumText  string // entry: number as written
	NoteText string // note value / text
}

type absRecord struct {
	Header string
	Items  []absItem
}

type absFile []absRecord

type physLine struct {
	Text string // without line terminator
	Kind string // heading | entry | note | blank | comment
	Rec  int
	Item int
}

var layoutIndents = []string{"  ", "\t", "    ", "- ", "  - ", "\t- ", " "}
var layoutSeps = []string{": ", ":  ", ":\t", ": \t "}
var layoutTrails = []string{"", " ", "\t", "  \t"}
var layoutHashes = []string{"# ", "#", "#  ", "#\t"}
var layoutGaps = []string{"", "\n", "# a comment\n", "   \n", "#\n", "\t\n"}

type renderOpts struct {
	NoGaps bool
}

// renderFile renders f; every layout decision is a choice point of x.
func renderFile(x *Exec, f absFile, o renderOpts) (string, []physLine) {
	var sb strings.Builder
	var lines []physLine
	eolAll := "\n"
	if x.Choose(2, "layout:crlf-file") == 1 {
		eolAll = "\r\n"
	}
	emit := func(text, kind string, rec, item int, last bool) {
		if !o.NoGaps {
			g := layoutGaps[x.Choose(len(layoutGaps), "layout:gap")]
			if g != "" {
				gl := strings.TrimSuffix(g, "\n")
				k := "blank"
				if strings.HasPrefix(gl, "#") {
					k = "comment"
				}
				lines = append(lines, physLine{gl, k, rec, -1})
				sb.WriteString(gl + eolAll)
			}
		}
		eol := eolAll
		if x.Choose(2, "layout:eol") == 1 {
			if eol == "\n" {
				eol = "\r\n"
			} else {
				eol = "\n"
			}
		}
		if last && x.Choose(2, "layout:no-final-newline") == 1 {
			eol = ""
		}
		lines = append(lines, physLine{text, kind, rec, item})
		sb.WriteString(text + eol)
	}
	total := 0
	for _, r := range f {
		total += 1 + len(r.Items)
	}
	n := 0
	for ri, r := range f {
		n++
		h := r.Header
		if x.Choose(2, "layout:quote-heading") == 1 {
			h = `"` + h + `"` // a heading is a name too: "soup, clear":
		}
		h += ":" + layoutTrails[x.Choose(len(layoutTrails), "layout:trail")]
		emit(h, "heading", ri, -1, n == total)
		for ii, it := range r.Items {
			n++
			ind := layoutIndents[x.Choose(len(layoutIndents), "layout:indent")]
			if it.IsNote {
				var t string
				// (the blank after the # is optional in the documented grammar; more blanks or a tab are layout too)
				hash := layoutHashes[x.Choose(len(layoutHashes), "layout:note-hash")]
				if it.Name != "" {
					t = ind + hash + it.Name + ": " + it.NoteText
				} else {
					t = ind + hash + it.NoteText
				}
				emit(t, "note", ri, ii, n == total)
				continue
			}
			name := it.Name
			if x.Choose(2, "layout:quote") == 1 {
				name = `"` + name + `"`
			}
			sep := layoutSeps[x.Choose(len(layoutSeps), "layout:sep")]
			tr := layoutTrails[x.Choose(len(layoutTrails), "layout:trail")]
			emit(ind+name+sep+it.NumText+tr, "entry", ri, ii, n == total)
		}
	}
	return sb.String(), lines
}

// refNumber: the correctly rounded float64 of a decimal literal (exact rational -> nearest even).
func refNumber(text string) float64 {
	r, ok := new(big.Rat).SetString(text)
	if !ok {
		hfail("reference cannot read number literal %q", text)
	}
	f, _ := r.Float64()
	return f
}

var genNames = []string{"cal", "a/b/c", "ел 2", "x,y", `q"t`, "coca-cola", "a:b", "a b c", "very/long/category/path/of/a/food/x", "100% juice", "fat(g)", "日本", "fish & chips", "omega<3", "a>b", "mac'n'cheese", "vitamin b+c", "two  blanks", "tab\tinside", `c:\temp\nuts`, `half\\half caf\u00e9`} // (the last two: backslashes are letters like any other, quoted or not)
var genNums = []string{"1", "+4", "-4", ".5", "5.", "1e3", "1E-2", "0.1", "1.005", "2.675", "123456789.125", "1e-7", "1e21", "007", "-0", "0.30000000000000004", "4.35", "9007199254740993"}

func (f absFile) String() string {
	var sb strings.Builder
	for _, r := range f {
		sb.WriteString(r.Header + "{")
		for _, it := range r.Items {
			if it.IsNote {
				sb.WriteString(fmt.Sprintf("#%s=%s;", it.Name, it.NoteText))
			} else {
				sb.WriteString(fmt.Sprintf("%s=%s;", it.Name, it.NumText))
			}
		}
		sb.WriteString("} ")
	}
	return sb.String()
}
