package main

// Stateless explorer: depth-first enumeration of all choice vectors by re-execution.
// One primitive, Choose(n, class). Go 1.17 syntax only (these files are compiled as
// _test.go files of the repository's cmd module).

import (
	"encoding/json"
	"fmt"
	verifshim "github.com/aquilax/hranoprovod-cli/v3/verifshim"
	"hash/fnv"
	"os"
	"runtime/debug"
	"runtime/pprof"
	"sort"
	"strconv"
	"strings"
	"time"
)

type choicePoint struct {
	C     int    `json:"c"`
	N     int    `json:"n"`
	Class string `json:"class"`
}

type harnessError struct{ msg string }

type abortNotMine struct{}

// oracleFailure: raised by oracle helpers deep inside a check when what the program printed cannot
// even be interpreted (e.g. a number column holding garbage). It ends the execution and is recorded as
// a violation with the given signature - never as a harness error.
type oracleFailure struct{ sig, msg string }

func ofail(sig, format string, a ...interface{}) {
	panic(oracleFailure{sig, fmt.Sprintf(format, a...)})
}

func hfail(format string, a ...interface{}) {
	panic(harnessError{fmt.Sprintf(format, a...)})
}

// Violation is one oracle failure of one execution.
type Violation struct {
	Sig     string                 `json:"sig"`    // signature: matched against known_findings.json
	Detail  string                 `json:"detail"` // human-readable
	Explore string                 `json:"explore"`
	Choices []int                  `json:"choices"`
	Replay  map[string]interface{} `json:"replay,omitempty"`
	// Unconfirmed: the un-instrumented binary does not reproduce an in-process
	// observation this violation rests on (harness inconsistency, not a finding).
	Unconfirmed   string `json:"unconfirmed,omitempty"`
	ConfirmedRuns int    `json:"confirmed_on_real_binary_runs,omitempty"`
}

type Exec struct {
	w        *Worker
	prefix   []int
	trace    []choicePoint
	dev      map[string]int
	budget   map[string]int
	abortAt  int // abort when this many choices were made (0 = never)
	obs      []byte
	viol     []Violation
	caseKey  string
	nontriv  bool
	sample   interface{}
	notes    map[string]int64
	explore  string
	Replayed bool
	// NoConfirm: the violations of this execution depend on an explorer-chosen map order or
	// schedule, which a single run of the real binary cannot reproduce (the check confirms them itself)
	NoConfirm bool
}

// Choose returns a value in [0,n). Choice 0 is the default answer. For classes with
// a deviation budget a non-zero choice costs one deviation; once the budget of the
// class is spent the point no longer branches.
func (x *Exec) Choose(n int, class string) int {
	if n <= 0 {
		hfail("Choose(%d,%s)", n, class)
	}
	i := len(x.trace)
	c := 0
	if i < len(x.prefix) {
		c = x.prefix[i]
	}
	eff := n
	bkey, hasBudget := class, false
	if _, ok := x.budget[class]; ok {
		hasBudget = true
	} else if j := strings.Index(class, ":"); j > 0 {
		if _, ok := x.budget[class[:j]]; ok {
			bkey, hasBudget = class[:j], true
		}
	}
	if hasBudget && x.dev[bkey] >= x.budget[bkey] {
		eff = 1
	}
	if c >= eff {
		hfail("replay divergence in %s: choice %d at point %d (class %s) but arity is %d", x.explore, c, i, class, eff)
	}
	if c != 0 && hasBudget {
		x.dev[bkey]++
	}
	x.trace = append(x.trace, choicePoint{c, eff, class})
	if x.abortAt > 0 && len(x.trace) == x.abortAt {
		panic(abortNotMine{})
	}
	return c
}

// Bool is Choose(2) != 0.
func (x *Exec) Bool(class string) bool { return x.Choose(2, class) != 0 }

// Obs appends to the observation of this execution (used for the determinism audit
// and for counting distinct observed outcomes).
func (x *Exec) Obs(parts ...string) {
	for _, p := range parts {
		x.obs = append(x.obs, p...)
		x.obs = append(x.obs, 0)
	}
}

// Case names the case this execution examined; nontrivial says whether it is
// non-trivial by the check's stated rule.
func (x *Exec) Case(key string, nontrivial bool) {
	x.caseKey = key
	x.nontriv = nontrivial
}

func (x *Exec) Sample(v interface{}) { x.sample = v }

// Journal records, before a risky operation, which case is about to run. If the
// process dies (fatal runtime error) the driver attributes the death to this case.
func (x *Exec) Journal(sig, desc string) {
	if x.w.TmpDir == "" {
		return
	}
	v := Violation{Sig: sig, Detail: desc, Explore: x.explore, Choices: x.choices()}
	b, _ := json.Marshal(v)
	os.WriteFile(x.w.TmpDir+"/journal.json", b, 0o644)
}

func (x *Exec) Note(counter string, n int64) {
	if x.notes == nil {
		x.notes = map[string]int64{}
	}
	x.notes[counter] += n
}

func (x *Exec) Violate(sig, detail string, replay map[string]interface{}) {
	ch := make([]int, len(x.trace))
	for i, p := range x.trace {
		ch[i] = p.C
	}
	x.viol = append(x.viol, Violation{Sig: sig, Detail: detail, Explore: x.explore, Choices: ch, Replay: replay})
}

func (x *Exec) choices() []int {
	ch := make([]int, len(x.trace))
	for i, p := range x.trace {
		ch[i] = p.C
	}
	return ch
}

func hash64(b []byte) uint64 {
	h := fnv.New64a()
	h.Write(b)
	return h.Sum64()
}

type hashSet struct {
	m      map[uint64]struct{}
	capped bool
	max    int
}

func newHashSet(max int) *hashSet { return &hashSet{m: map[uint64]struct{}{}, max: max} }
func (s *hashSet) add(h uint64) {
	if len(s.m) >= s.max {
		if _, ok := s.m[h]; !ok {
			s.capped = true
		}
		return
	}
	s.m[h] = struct{}{}
}

type ExploreStat struct {
	Name        string           `json:"name"`
	Executions  int64            `json:"executions"`
	States      int64            `json:"states"`
	Transitions int64            `json:"transitions"`
	MaxDepth    int              `json:"max_depth"`
	Budgets     map[string]int   `json:"deviation_budgets,omitempty"`
	Complete    bool             `json:"complete"`
	Classes     map[string]int64 `json:"choice_points_by_class,omitempty"`
}

// Worker is one shard of one check.
type Worker struct {
	Prop     string
	Tier     string
	Shard    int
	NShards  int
	Seed     int64
	Deadline time.Time
	Bin      string // un-instrumented binary (may be empty)
	TmpDir   string
	OutFile  string
	Replay   *Violation

	Executions  int64
	States      int64
	Transitions int64
	MaxDepth    int
	Audits      int64
	obsSet      *hashSet
	caseSet     *hashSet
	nontrivSet  *hashSet
	Samples     []interface{}
	Violations  []Violation
	ViolCount   map[string]int64
	Notes       map[string]int64
	Explores    []ExploreStat
	TimedOut    bool
	Nondet      string
	Info        map[string]interface{}
	sampleEvery int64
}

type ExploreOpts struct {
	Budgets    map[string]int // class -> max deviations (classes not listed branch freely)
	ShardDepth int            // choice depth at which subtrees are dealt to shards
	NoAudit    bool
}

var memDebug = os.Getenv("VERIF_MEMDEBUG")

// curExec: the execution that is running (application runs bind their scheduler to it).
var curExec *Exec

func (w *Worker) runOne(name string, prefix []int, abortAt int, opt ExploreOpts, body func(x *Exec)) (x *Exec, aborted bool) {
	budgets := opt.Budgets
	if _, has := budgets["appsched"]; !has {
		// schedules of a concurrent application run: at most one departure from the default schedule per execution
		// unless the exploration says otherwise (C05 explores them all)
		nb := map[string]int{"appsched": 1}
		for k, v := range budgets {
			nb[k] = v
		}
		budgets = nb
	}
	x = &Exec{w: w, prefix: prefix, dev: map[string]int{}, budget: budgets, abortAt: abortAt, explore: name}
	curExec = x
	defer func() { curExec = nil }()
	appRunLog = appRunLog[:0]
	defer func() {
		if r := recover(); r != nil {
			if _, ok := r.(abortNotMine); ok {
				aborted = true
				return
			}
			if of, ok := r.(oracleFailure); ok {
				x.Violate(w.Prop+"|"+of.sig, of.msg, nil)
				return
			}
			if he, ok := r.(harnessError); ok {
				fatalHarness("harness error in %s at choices %v: %s", name, x.choices(), he.msg)
			}
			fatalHarness("unexpected panic in harness %s at choices %v: %v\n%s", name, x.choices(), r, debug.Stack())
		}
	}()
	// every execution starts from freshly initialised package-level variables of the repository: an execution is a
	// function of its choices (what a call leaves behind for the NEXT call is explored explicitly, as call sequences)
	verifshim.ResetPackageState()
	body(x)
	if len(x.trace) < len(prefix) {
		hfail("replay divergence in %s: execution made %d choices, prefix has %d", name, len(x.trace), len(prefix))
	}
	return x, false
}

func fatalHarness(format string, a ...interface{}) {
	fmt.Fprintf(os.Stderr, "HARNESS-ERROR: "+format+"\n", a...)
	os.Exit(2)
}

// Explore enumerates every execution of body (every choice vector within the budgets).
func (w *Worker) Explore(name string, opt ExploreOpts, body func(x *Exec)) {
	if only := os.Getenv("VERIF_ONLY"); only != "" && only != name && w.Replay == nil {
		return // development aid: one exploration only (never set by the registered commands)
	}
	if w.Replay != nil {
		if w.Replay.Explore != name {
			return
		}
		x, _ := w.runOne(name, w.Replay.Choices, 0, opt, body)
		w.Executions++
		w.account(x, 0, true)
		return
	}
	if w.TimedOut {
		w.Explores = append(w.Explores, ExploreStat{Name: name, Budgets: opt.Budgets})
		return
	}
	D := opt.ShardDepth
	if D <= 0 {
		D = 2
	}
	st := ExploreStat{Name: name, Budgets: opt.Budgets, Classes: map[string]int64{}}
	prefix := []int{}
	newPrefix := true
	idx := -1
	mine := false
	changed := 0
	first := true
	for {
		if newPrefix {
			idx++
			mine = w.NShards <= 1 || idx%w.NShards == w.Shard
		}
		abortAt := 0
		if !mine {
			abortAt = D
		}
		x, _ := w.runOne(name, prefix, abortAt, opt, body)
		if mine {
			w.Executions++
			st.Executions++
			nn := int64(len(x.trace) - changed)
			if first {
				nn = int64(len(x.trace)) + 1
			}
			if nn < 1 {
				nn = 1
			}
			st.States += nn
			st.Transitions += nn
			if first {
				st.Transitions--
			}
			if len(x.trace) > st.MaxDepth {
				st.MaxDepth = len(x.trace)
			}
			for _, p := range x.trace[minInt(changed, len(x.trace)):] {
				if p.N > 1 {
					st.Classes[p.Class]++
				}
			}
			audit := !opt.NoAudit && (len(x.viol) > 0 || w.Executions%500 == 0)
			if audit {
				reps := 1
				if len(x.viol) > 0 {
					reps = 4
				}
				for r := 0; r < reps; r++ {
					y, _ := w.runOne(name, x.choices(), 0, opt, body)
					w.Audits++
					if string(y.obs) != string(x.obs) || len(y.viol) != len(x.viol) {
						if w.Nondet == "" {
							w.Nondet = fmt.Sprintf("%s choices %v: observation differs between two runs of the same choice vector\n--- first\n%q\n--- second\n%q", name, x.choices(), tailStr(string(x.obs), 800), tailStr(string(y.obs), 800))
						}
						w.Notes["determinism_audit_mismatches"]++
						break
					}
				}
			}
			w.account(x, idx, false)
		}
		first = false
		// odometer
		lim := len(x.trace)
		i := lim - 1
		for ; i >= 0; i-- {
			if x.trace[i].C+1 < x.trace[i].N {
				break
			}
		}
		if i < 0 {
			st.Complete = true
			break
		}
		np := make([]int, i+1)
		for k := 0; k < i; k++ {
			np[k] = x.trace[k].C
		}
		np[i] = x.trace[i].C + 1
		prefix = np
		newPrefix = i < D
		changed = i
		if !w.Deadline.IsZero() && time.Now().After(w.Deadline) {
			w.TimedOut = true
			break
		}
		if memDebug != "" && w.Executions%5000 == 0 { // development aid: VERIF_MEMDEBUG=<dir>
			if f, err := os.Create(fmt.Sprintf("%s/heap-%d.prof", memDebug, os.Getpid())); err == nil {
				pprof.WriteHeapProfile(f)
				f.Close()
			}
		}
	}
	w.States += st.States
	w.Transitions += st.Transitions
	if st.MaxDepth > w.MaxDepth {
		w.MaxDepth = st.MaxDepth
	}
	w.Explores = append(w.Explores, st)
}

func minInt(a, b int) int {
	if a < b {
		return a
	}
	return b
}

func (w *Worker) account(x *Exec, idx int, replay bool) {
	w.obsSet.add(hash64(x.obs))
	if x.caseKey != "" {
		h := hash64([]byte(x.explore + "\x00" + x.caseKey))
		w.caseSet.add(h)
		if x.nontriv {
			w.nontrivSet.add(h)
		}
	}
	for k, v := range x.notes {
		w.Notes[k] += v
	}
	if x.sample != nil {
		if len(w.Samples) < 3 || (w.Executions%w.sampleEvery == 0 && len(w.Samples) < 8) {
			w.Samples = append(w.Samples, x.sample)
		}
	}
	for _, v := range x.viol {
		w.ViolCount[v.Sig]++
		if w.ViolCount[v.Sig] <= 3 {
			// before a violation is believed, every application run of this execution is
			// repeated on the un-instrumented binary in a fresh process
			if x.NoConfirm {
				// confirmed by the check's own means
			} else if msg, n := w.confirmRuns(); msg != "" {
				v.Unconfirmed = msg
				w.Notes["violations_not_confirmed_by_real_binary"]++
			} else if n > 0 {
				v.ConfirmedRuns = n
				w.Notes["violations_confirmed_by_real_binary"]++
			}
			w.Violations = append(w.Violations, v)
		}
	}
}

type Fragment struct {
	Prop        string                 `json:"prop"`
	Shard       int                    `json:"shard"`
	Executions  int64                  `json:"executions"`
	States      int64                  `json:"states"`
	Transitions int64                  `json:"transitions"`
	MaxDepth    int                    `json:"max_depth"`
	Audits      int64                  `json:"determinism_audits"`
	Obs         []uint64               `json:"obs"`
	Cases       []uint64               `json:"cases"`
	Nontriv     []uint64               `json:"nontriv"`
	SetsCapped  bool                   `json:"sets_capped"`
	Samples     []interface{}          `json:"samples"`
	Violations  []Violation            `json:"violations"`
	ViolCount   map[string]int64       `json:"viol_count"`
	Notes       map[string]int64       `json:"notes"`
	Explores    []ExploreStat          `json:"explores"`
	TimedOut    bool                   `json:"timed_out"`
	Nondet      string                 `json:"nondeterminism,omitempty"`
	Info        map[string]interface{} `json:"info"`
	WallS       float64                `json:"wall_s"`
}

func setToSlice(s *hashSet) []uint64 {
	out := make([]uint64, 0, len(s.m))
	for h := range s.m {
		out = append(out, h)
	}
	sort.Slice(out, func(i, j int) bool { return out[i] < out[j] })
	return out
}

func newWorkerFromEnv() *Worker {
	w := &Worker{Prop: os.Getenv("VERIF_PROP"), Tier: os.Getenv("VERIF_TIER"), NShards: 1,
		obsSet: newHashSet(2000000), caseSet: newHashSet(2000000), nontrivSet: newHashSet(2000000),
		ViolCount: map[string]int64{}, Notes: map[string]int64{}, Info: map[string]interface{}{}, sampleEvery: 9973}
	if s := os.Getenv("VERIF_SHARD"); s != "" {
		parts := strings.Split(s, "/")
		w.Shard, _ = strconv.Atoi(parts[0])
		w.NShards, _ = strconv.Atoi(parts[1])
	}
	if s := os.Getenv("VERIF_SEED"); s != "" {
		w.Seed, _ = strconv.ParseInt(s, 10, 64)
	}
	if s := os.Getenv("VERIF_DEADLINE_S"); s != "" {
		f, _ := strconv.ParseFloat(s, 64)
		if f > 0 {
			w.Deadline = time.Now().Add(time.Duration(f * float64(time.Second)))
		}
	}
	w.Bin = os.Getenv("VERIF_BIN")
	w.TmpDir = os.Getenv("VERIF_TMP")
	w.OutFile = os.Getenv("VERIF_OUT")
	if rf := os.Getenv("VERIF_REPLAY"); rf != "" {
		b, err := os.ReadFile(rf)
		if err != nil {
			fatalHarness("cannot read replay file: %v", err)
		}
		var v Violation
		if err := json.Unmarshal(b, &v); err != nil {
			fatalHarness("bad replay file: %v", err)
		}
		w.Replay = &v
	}
	return w
}

func (w *Worker) finish(start time.Time) {
	fr := Fragment{Prop: w.Prop, Shard: w.Shard, Executions: w.Executions, States: w.States, Transitions: w.Transitions,
		MaxDepth: w.MaxDepth, Audits: w.Audits, Obs: setToSlice(w.obsSet), Cases: setToSlice(w.caseSet), Nontriv: setToSlice(w.nontrivSet),
		SetsCapped: w.obsSet.capped || w.caseSet.capped || w.nontrivSet.capped,
		Samples:    w.Samples, Violations: w.Violations, ViolCount: w.ViolCount, Notes: w.Notes, Explores: w.Explores,
		TimedOut: w.TimedOut, Nondet: w.Nondet, Info: w.Info, WallS: time.Since(start).Seconds()}
	b, err := json.Marshal(fr)
	if err != nil {
		fatalHarness("marshal fragment: %v", err)
	}
	if w.OutFile == "" {
		os.Stdout.Write(b)
		return
	}
	if err := os.WriteFile(w.OutFile, b, 0o644); err != nil {
		fatalHarness("write fragment: %v", err)
	}
}

// ---- per-execution watchdog: a case that runs 10^5..10^7 times longer than normal is reported as non-terminating.

var watchCh = make(chan watchMsg, 16)

type watchMsg struct {
	desc string
	on   bool
}

func (w *Worker) watch(desc string) { watchCh <- watchMsg{desc, true} }
func (w *Worker) unwatch()          { watchCh <- watchMsg{"", false} }

func (w *Worker) startWatchdog(limit time.Duration) {
	go func() {
		cur := ""
		var since time.Time
		tick := time.NewTicker(time.Second)
		for {
			select {
			case m := <-watchCh:
				if m.on {
					cur, since = m.desc, time.Now()
				} else {
					cur = ""
				}
			case <-tick.C:
				if cur != "" && time.Since(since) > limit {
					fmt.Fprintf(os.Stderr, "WATCHDOG: case still running after %v: %s\n", limit, cur)
					w.ViolCount[w.Prop+"|no-termination-within-horizon"]++
					w.Violations = append(w.Violations, Violation{Sig: w.Prop + "|no-termination-within-horizon", Detail: "still running after " + limit.String() + ": " + cur})
					w.finish(time.Now())
					os.Exit(0)
				}
			}
		}
	}()
}

// rethrowSentinel re-panics the explorer's own control-flow panics from a recover() that is meant for the code under test.
func rethrowSentinel(r interface{}) {
	switch r.(type) {
	case abortNotMine, harnessError, oracleFailure:
		panic(r)
	}
}
