package main

import (
	"fmt"
	"math/big"
	"sort"
	"strings"
)

func init() { propChecks["C07"] = checkC07 }

var c07Books = []absBook{
	// book 0: k -> k/r2 -> k/r1 -> elements (three levels, first ingredient taken once; visited bottom-up under
	// the default reverse map order), an empty recipe
	{{"k/r1", []absIng{{"cal", 2}, {"fat", 0.5}}}, {"k/r2", []absIng{{"k/r1", 2}, {"prot", -1}}}, {"r0", nil}, {"k", []absIng{{"k/r2", 1}, {"cal", 3}, {"fat", 1}}}},
	// book 1: r0 -> k/r2 -> k/r1 (visited top-down), repeated ingredient, zero coefficient
	{{"k/r1", []absIng{{"cal", -1}, {"fat", 3}}}, {"k/r2", []absIng{{"k/r1", 1}, {"cal", 2}, {"cal", 1}}}, {"r0", []absIng{{"k/r2", 1}, {"fat", 0}}}, {"k", []absIng{{"cal", 0.5}}}},
}

// "k" is a recipe whose name is a path-prefix of k/r1 and k/r2; "u" of u/v
var c07Foods = []string{"k/r1", "k/r2", "r0", "u/a&b <c>'d'+e \"f\" 1.5", "cal", "k", "u"}

// the large log also has names with empty path segments ("k/" is a sibling of "k/r1" below "k", not "k" itself)
var c07FoodsLarge = append(append([]string{}, c07Foods...), "k/", "/k", "k//r1", "Ünï/код/")
var c07Qty = []float64{1, -2, 0.5}

func dec(s string) *big.Rat {
	r, ok := new(big.Rat).SetString(strings.TrimSpace(s))
	if !ok {
		ofail("unreadable-number-in-a-report", "a report shows %q where a number is expected", s)
	}
	return r
}

func ratEq(a, b *big.Rat) bool { return a.Cmp(b) == 0 }

func checkC07(w *Worker) {
	w.appInit()
	max1, max2 := 2, 1
	qtys := c07Qty[:2] // quick: {1, -2}
	if w.Tier == "thorough" {
		max1, max2 = 3, 1 // (3+2 entries with three quantities does not finish within the half-hour deadline)
	}
	const today = "2021/01/27"
	var exactSpecials []specialScenario
	for _, sc := range specialsFor(w.Tier) {
		if sc.Exact && len(sc.Log) >= 2 {
			exactSpecials = append(exactSpecials, sc)
		}
	}
	special := false
	body := func(large bool) func(x *Exec) {
		special := special
		return func(x *Exec) {
			bi, book := 0, absBook(nil)
			var scLog absLog
			if special {
				si := x.Choose(len(exactSpecials), "input:scenario")
				bi, book, scLog = 100+si, exactSpecials[si].Book, exactSpecials[si].Log
			} else {
				bi = x.Choose(len(c07Books), "input:book")
				book = c07Books[bi]
			}
			period := x.Choose(2, "input:period")
			genDay := func(date string, max int) absDay {
				d := absDay{Date: date}
				n := x.Choose(max+1, "input:entries")
				for i := 0; i < n; i++ {
					f := c07Foods[x.Choose(len(c07Foods), "input:food")]
					q := qtys[x.Choose(len(qtys), "input:qty")]
					d.Entries = append(d.Entries, absIng{f, q})
				}
				return d
			}
			var lg absLog
			var d2 absDay
			sameDate := false
			if special {
				lg = scLog
				d2 = lg[1]
			} else if large {
				// 60 chronological days of 9..12 entries (wide days, repeats, every food, three quantities): reports far
				// larger than the 4096-byte buffers
				for d := 0; d < 60; d++ {
					day := absDay{Date: fmt.Sprintf("2021/%02d/%02d", 1+d/28, 1+d%28)}
					for e := 0; e < 9+d%4; e++ {
						day.Entries = append(day.Entries, absIng{c07FoodsLarge[(d+e*3)%len(c07FoodsLarge)], c07Qty[(d+e)%len(c07Qty)]})
						if e%4 == 1 {
							day.Entries = append(day.Entries, absIng{fmt.Sprintf("bulk/%d/%d", d%7, e), 1})
						}
					}
					lg = append(lg, day)
				}
				d2 = lg[1]
			} else {
				lg = absLog{genDay("2021/01/24", max1)}
				d2 = genDay("2021/01/25", max2)
				if len(d2.Entries) > 0 {
					if x.Choose(2, "input:samedate") == 1 {
						d2.Date = "2021/01/24"
						sameDate = true
					}
				}
				lg = append(lg, d2)
			}
			files := map[string]string{"food.yaml": renderBook(book), "log.yaml": renderLog(lg)}
			var pflags []string
			selDate := ""
			if period == 1 {
				selDate = d2.Date
				pflags = []string{"-b", selDate, "-e", selDate}
			}
			x.Case(fmt.Sprintf("%d|%d|%s", bi, period, tailStr(lg.String(), 400)), len(lg[0].Entries)+len(lg[1].Entries) >= 2)
			var obs []string
			failed := false
			run := func(args ...string) AppRun {
				a := append([]string{"--no-color", "--today", today}, pflags...)
				a = append(a, args...)
				c := appCase{Args: a, Files: files}
				r := runApp(c)
				obs = append(obs, r.Key())
				if r.Failed || r.Panic != "" {
					failed = true
					x.Violate("C07|"+args[0]+"|command-failed", fmt.Sprintf("`%s` failed: %s", c.shell(), r.String()), map[string]interface{}{"cmd": c.shell()})
				}
				return r
			}
			ctx := "book {" + book.String() + "} log {" + lg.String() + "} period " + strings.Join(pflags, " ")
			viol := func(rel, msg string) {
				x.Violate("C07|"+rel, ctx+"\n"+msg, map[string]interface{}{"files": files, "period_flags": pflags, "relation": rel})
			}
			// ---- totals vs register vs single-element register vs bal -s
			totOut := run("report", "totals")
			regOut := run("reg")
			if failed {
				return
			}
			tot, _, err := parseTotals(totOut.Stdout)
			if err != nil {
				viol("totals-unparseable", err.Error()+"\n"+totOut.Stdout)
				return
			}
			days, err := parseRegister(regOut.Stdout, "default")
			if err != nil {
				viol("register-unparseable", err.Error())
				return
			}
			type pn struct{ pos, neg, sum *big.Rat }
			sumReg := map[string]*pn{}
			for _, d := range days {
				for _, t := range d.Totals {
					a := sumReg[t.Name]
					if a == nil {
						a = &pn{new(big.Rat), new(big.Rat), new(big.Rat)}
						sumReg[t.Name] = a
					}
					a.pos.Add(a.pos, dec(t.Pos))
					a.neg.Add(a.neg, dec(t.Neg))
					a.sum.Add(a.sum, dec(t.Sum))
				}
			}
			if len(sumReg) != len(tot) {
				viol("totals-vs-register|element-sets-differ", fmt.Sprintf("report totals lists %d elements, the register's daily totals %d\n%s\n%s", len(tot), len(sumReg), totOut.Stdout, regOut.Stdout))
				return
			}
			for name, t := range tot {
				a := sumReg[name]
				if a == nil || !ratEq(a.pos, dec(t.Pos)) || !ratEq(a.neg, dec(t.Neg)) || !ratEq(a.sum, dec(t.Sum)) {
					viol("totals-vs-register|amounts-differ", fmt.Sprintf("element %s: report totals %v, sum of the register's daily totals %v\n%s\n%s", name, t, a, totOut.Stdout, regOut.Stdout))
					return
				}
			}
			// X ranges over the elements and over names that are something else as well: every logged food (in the
			// book or not) and every recipe of the book - all reports must still agree on what "X" amounts to
			singles := []string{"cal", "fat"}
			if !large {
				seenX := map[string]bool{"cal": true, "fat": true}
				for _, d := range lg {
					for _, e := range d.Entries {
						if !seenX[e.Name] {
							seenX[e.Name] = true
							singles = append(singles, e.Name)
						}
					}
				}
				for _, r := range book {
					if !seenX[r.Name] {
						seenX[r.Name] = true
						singles = append(singles, r.Name)
					}
				}
				if len(singles) > 14 {
					singles = singles[:14]
				}
			} else {
				singles = append(singles, c07Foods[0], c07Foods[1])
			}
			for _, el := range singles {
				sOut := run("reg", "-s", el)
				bOut := run("bal", "-s", el)
				if failed {
					return
				}
				rows, err := parseRegSingle(sOut.Stdout, len("2021/01/24"))
				if err != nil {
					viol("reg-single-unparseable", err.Error())
					return
				}
				p, n, s := new(big.Rat), new(big.Rat), new(big.Rat)
				for _, r := range rows {
					p.Add(p, dec(r.Pos))
					n.Add(n, dec(r.Neg)) // printed negated
					s.Add(s, dec(r.Sum))
				}
				want, has := tot[el]
				if !has {
					want = rTotal{el, "0.00", "0.00", "0.00"}
				}
				if !ratEq(p, dec(want.Pos)) || !ratEq(new(big.Rat).Neg(n), dec(want.Neg)) || !ratEq(s, dec(want.Sum)) {
					viol("totals-vs-reg-single|amounts-differ", fmt.Sprintf("element %s: report totals %v, rows of `reg -s %s`:\n%s", el, want, el, sOut.Stdout))
					return
				}
				// flags that qualify the other registers select nothing here: the rows of the single-element register (and
				// with them every sum above) are the same with each of them
				if el == "cal" || el == "fat" {
					for _, q := range [][]string{{"--no-totals"}, {"--totals-only"}, {"--shorten"}, {"--use-old-reg-reporter"}, {"--internal-template-name", "left-aligned"}, {"--no-totals", "--shorten"}} {
						qOut := run(append([]string{"reg", "-s", el}, q...)...)
						if failed {
							return
						}
						if qOut.Stdout != sOut.Stdout {
							viol("reg-single|rows-depend-on-a-presentation-flag", fmt.Sprintf("`reg -s %s %s` prints\n%s\n`reg -s %s` prints\n%s", el, strings.Join(q, " "), qOut.Stdout, el, sOut.Stdout))
							return
						}
					}
				}
				b, err := parseBalance(bOut.Stdout)
				if err != nil || !b.HasTotal {
					viol("bal-single-unparseable", fmt.Sprintf("%v\n%s", err, bOut.Stdout))
					return
				}
				if !ratEq(dec(b.Total), dec(want.Sum)) {
					viol("totals-vs-bal-single|grand-total-differs", fmt.Sprintf("element %s: report totals sum %s, `bal -s %s` grand total %s\n%s\n%s", el, want.Sum, el, b.Total, totOut.Stdout, bOut.Stdout))
					return
				}
			}
			// ---- quantity per food = balance leaves = sums of csv log rows = reg -f rows
			qOut := run("report", "quantity")
			balOut := run("bal")
			csvOut := run("csv", "log")
			fOut := run("reg", "-f", ".")
			if failed {
				return
			}
			qrows, err := parseValueName(qOut.Stdout)
			if err != nil {
				viol("quantity-unparseable", err.Error())
				return
			}
			q := map[string]*big.Rat{}
			for _, r := range qrows {
				if _, dup := q[r.Name]; dup {
					viol("quantity|food-listed-twice", qOut.Stdout)
					return
				}
				q[r.Name] = dec(r.Val)
			}
			b, err := parseBalance(balOut.Stdout)
			if err != nil {
				viol("balance-unparseable", err.Error())
				return
			}
			leaves := map[string]*big.Rat{}
			for i, rw := range b.Rows {
				if i+1 < len(b.Rows) && b.Rows[i+1].Level > rw.Level {
					continue
				}
				leaves[rw.Path] = dec(rw.Amount)
			}
			recs, err := parseCSV(csvOut.Stdout)
			if err != nil {
				viol("csv-log-unparseable", err.Error())
				return
			}
			csvSum := map[string]*big.Rat{}
			for _, rec := range recs {
				if len(rec) != 3 {
					viol("csv-log-unparseable", fmt.Sprintf("record %v", rec))
					return
				}
				if csvSum[rec[1]] == nil {
					csvSum[rec[1]] = new(big.Rat)
				}
				csvSum[rec[1]].Add(csvSum[rec[1]], dec(rec[2]))
			}
			fSum := map[string]*big.Rat{}
			for _, line := range splitLines(fOut.Stdout) {
				p := strings.Split(line, "\t")
				if len(p) > 3 {
					// a name with a tab inside: the first field is the date, the last one the amount
					p = []string{p[0], strings.Join(p[1:len(p)-1], "\t"), p[len(p)-1]}
				}
				if len(p) != 3 {
					viol("reg-single-food-unparseable", line)
					return
				}
				if fSum[p[1]] == nil {
					fSum[p[1]] = new(big.Rat)
				}
				fSum[p[1]].Add(fSum[p[1]], dec(p[2]))
			}
			cmpMaps := func(rel string, a, bm map[string]*big.Rat, an, bn string) bool {
				if len(a) != len(bm) {
					viol(rel+"|food-sets-differ", fmt.Sprintf("%s has %d foods, %s has %d\n%s\n---\n%s\n---\n%s", an, len(a), bn, len(bm), qOut.Stdout, balOut.Stdout, csvOut.Stdout))
					return false
				}
				for k, v := range a {
					if o, ok := bm[k]; !ok || !ratEq(v, o) {
						viol(rel+"|amounts-differ", fmt.Sprintf("food %s: %s says %s, %s says %v", k, an, v.FloatString(3), bn, o))
						return false
					}
				}
				return true
			}
			loggedNames := []string{}
			for name := range q {
				loggedNames = append(loggedNames, name)
			}
			// leaf amounts are per-food amounts only when no logged food is a path-prefix of another
			if prefixFree(loggedNames) && !cmpMaps("quantity-vs-balance-leaves", q, leaves, "report quantity", "bal leaves") {
				return
			}
			if !cmpMaps("quantity-vs-csv-log", q, csvSum, "report quantity", "sum of csv log rows") {
				return
			}
			if !cmpMaps("quantity-vs-reg-single-food", q, fSum, "report quantity", "sum of `reg -f .` rows") {
				return
			}
			// ---- unresolved = logged foods the book does not define
			uOut := run("report", "unresolved")
			if failed {
				return
			}
			defined := map[string]bool{}
			for _, r := range book {
				defined[r.Name] = true
			}
			var wantU []string
			for name := range q {
				if !defined[name] {
					wantU = append(wantU, name)
				}
			}
			sort.Strings(wantU)
			gotU := splitLines(uOut.Stdout)
			sort.Strings(gotU)
			if strings.Join(gotU, ",") != strings.Join(wantU, ",") {
				viol("unresolved-vs-logged-undefined", fmt.Sprintf("report unresolved lists %v; logged foods (report quantity) that the book does not define: %v", gotU, wantU))
				return
			}
			if period == 1 || sameDate {
				// ---- summary d = register of day d
				d := selDate
				if d == "" {
					d = "2021/01/24"
				}
				pf := pflags
				pflags = nil
				sOut := run("summary", d)
				rAll := run("reg", "-b", d, "-e", d)
				pflags = pf
				if failed {
					return
				}
				sd, err := parseSummary(sOut.Stdout)
				if err != nil {
					viol("summary-unparseable", err.Error())
					return
				}
				rd, err := parseRegister(rAll.Stdout, "default")
				if err != nil {
					viol("register-unparseable", err.Error())
					return
				}
				if summaryString(sd) != summaryString(rd) {
					viol("summary-vs-register", fmt.Sprintf("summary %s:\n%s\nregister of that day:\n%s", d, sOut.Stdout, rAll.Stdout))
					return
				}
			}
			if period == 0 {
				// ---- element-total rows = matching rows of the resolved book CSV
				for _, el := range []string{"cal", "fat"} {
					eOut := run("report", "element-total", el)
					dOut := run("csv", "database-resolved")
					if failed {
						return
					}
					er, err := parseValueName(eOut.Stdout)
					if err != nil {
						viol("element-total-unparseable", err.Error())
						return
					}
					recs, err := parseCSV(dOut.Stdout)
					if err != nil {
						viol("csv-resolved-unparseable", err.Error())
						return
					}
					want := map[string]string{}
					for _, rec := range recs {
						if len(rec) == 3 && rec[1] == el {
							want[rec[0]] = normNum(rec[2])
						}
					}
					got := map[string]string{}
					for _, r := range er {
						got[r.Name] = r.Val
					}
					if fmt.Sprint(got) != fmt.Sprint(want) || len(er) != len(want) {
						viol("element-total-vs-csv-resolved", fmt.Sprintf("element %s: element-total rows %v, rows of csv database-resolved %v", el, got, want))
						return
					}
				}
				// ---- stats: counts of headings, first/last date, day distances from --today
				stOut := run("stats")
				prOut := run("print")
				if failed {
					return
				}
				st := parseStats(stOut.Stdout)
				headings := 0
				for _, line := range splitLines(prOut.Stdout) {
					if strings.HasSuffix(line, ":") && !strings.HasPrefix(line, " ") {
						headings++
					}
				}
				if st["Log records"] != fmt.Sprint(headings) || headings != len(lg) {
					viol("stats-vs-print|log-record-count", fmt.Sprintf("stats says %q log records, print shows %d headings, the file has %d\n%s", st["Log records"], headings, len(lg), stOut.Stdout))
					return
				}
				if st["Database records"] != fmt.Sprint(len(book)) {
					viol("stats|database-record-count", fmt.Sprintf("stats says %q database records, the book has %d headings\n%s", st["Database records"], len(book), stOut.Stdout))
					return
				}
				// headings, not distinct names: a recipe defined a second time further down is one more record
				if len(book) > 0 {
					dup := files["food.yaml"] + book[0].Name + ":\n  cal: 7\n" + "late/addition:\n  cal: 1\n" + book[0].Name + ":\n  fat: 1\n"
					cd := appCase{Args: []string{"--no-color", "--today", today, "stats"}, Files: map[string]string{"food.yaml": dup, "log.yaml": files["log.yaml"]}}
					rd := runApp(cd)
					std := parseStats(rd.Stdout)
					if rd.Failed || std["Database records"] != fmt.Sprint(len(book)+3) {
						viol("stats|database-record-count|repeated-heading", fmt.Sprintf("`%s`: stats says %q database records, the book has %d headings (%q occurs three times)\n%s", cd.shell(), std["Database records"], len(book)+3, book[0].Name, rd.String()))
						return
					}
				}
				first, last := lg[0].Date, lg[len(lg)-1].Date
				wantFirst := fmt.Sprintf("%s (%d days ago)", first, dayNumber(today)-dayNumber(first))
				wantLast := fmt.Sprintf("%s (%d days ago)", last, dayNumber(today)-dayNumber(last))
				if st["First record"] != wantFirst || st["Last record"] != wantLast || st["Today"] != today {
					viol("stats|dates", fmt.Sprintf("stats prints first=%q last=%q today=%q, expected %q, %q, %q", st["First record"], st["Last record"], st["Today"], wantFirst, wantLast, today))
					return
				}
			}
			x.Obs(obs...)
			x.Sample(map[string]interface{}{"book": book.String(), "log": lg.String(), "period_flags": pflags, "report_totals": totOut.Stdout})
		}
	}
	w.Explore("relations", ExploreOpts{ShardDepth: 7}, body(false))
	w.Explore("relations-large-log", ExploreOpts{ShardDepth: 2}, body(true))
	// every special scenario whose amounts are exact (harness/specials.go)
	special = true
	w.Explore("relations-special-scenarios", ExploreOpts{ShardDepth: 2}, body(false))
	special = false
}
