package main

import (
	"github.com/aquilax/hranoprovod-cli/v3/verifshim"
)

var factorials = []int{1, 1, 2, 6, 24, 120, 720}

// permFromIndex decodes idx in [0,n!) into a permutation of 0..n-1 (Lehmer code); 0 is the identity.
func permFromIndex(n, idx int) []int {
	avail := make([]int, n)
	for i := range avail {
		avail[i] = i
	}
	out := make([]int, 0, n)
	for i := n; i >= 1; i-- {
		f := factorials[i-1]
		d := idx / f
		idx %= f
		out = append(out, avail[d])
		avail = append(avail[:d], avail[d+1:]...)
	}
	return out
}

// cappedPerms is the reported capped set for maps with more than maxFullPerm keys:
// identity, reversal, the n-1 rotations and the n-1 adjacent swaps.
func cappedPermCount(n int) int { return 2 + (n - 1) + (n - 1) }

func cappedPerm(n, idx int) []int {
	p := make([]int, n)
	for i := range p {
		p[i] = i
	}
	switch {
	case idx == 0:
	case idx == 1:
		for i := range p {
			p[i] = n - 1 - i
		}
	case idx < 2+(n-1):
		r := idx - 1
		for i := range p {
			p[i] = (i + r) % n
		}
	default:
		s := idx - (2 + (n - 1))
		p[s], p[s+1] = p[s+1], p[s]
	}
	return p
}

const maxFullPerm = 5

type mapVisit struct {
	Site string `json:"site"`
	N    int    `json:"n"`
	Perm []int  `json:"perm"`
}

// installMapOrder lets the explorer choose the iteration order at every dynamic
// visit of a ranged map: one choice point per visit, n! alternatives (n <= 5).
// The returned slice pointer records what was chosen (for replay files).
func installMapOrder(x *Exec, class string) *[]mapVisit {
	visits := &[]mapVisit{}
	verifshim.PermHook = func(n int, site string) []int {
		var p []int
		if n <= maxFullPerm {
			p = permFromIndex(n, x.Choose(factorials[n], class))
		} else {
			x.Note("maporder_capped_visits", 1)
			p = cappedPerm(n, x.Choose(cappedPermCount(n), class))
		}
		*visits = append(*visits, mapVisit{site, n, p})
		return p
	}
	return visits
}

func uninstallMapOrder() { verifshim.PermHook = nil }
