package main

import (
	"fmt"
	"os"
	"path/filepath"
	"strings"

	shared "github.com/aquilax/hranoprovod-cli/v3"
	"github.com/aquilax/hranoprovod-cli/v3/parser"
)

func init() { propChecks["C08"] = checkC08 }

var c08Tokens = []string{"a", "1", " ", "\t", ":", "-", "#", "\"", "/", "\n", "\r", "\xff", "NaN", "e"}

var c08Lines = []string{
	"a:", "2021/01/24:", "notadate:", "  x: 1", "  y:2", "  z: q", "  n: NaN", "  i: -Inf", "  big: 1e999",
	"  # k: v", "# c", "", "-", "  a: 1", "  b: 2", "b:", "  a//b: 1", "  /: 1", "  \xff\xfe: 1", ":", "\t", "  : 1", "  x: 1 2",
	"  " + strings.Repeat("long", 80) + ": 3",
	// notes of odd shapes: a colon with nothing but layout characters behind it, several colons, no blank after the #
	"  # todo:#", "  # breakfast:             #", "  #:#", "  # a: b: c", "  #", "  # :", "  #x: 1", "  ##", "  # k:\u00a0",
}

type c08Cmd struct {
	Global []string
	Args   []string
}

var c08Cmds = []c08Cmd{
	{nil, []string{"reg"}}, {nil, []string{"reg", "-s", "cal"}}, {nil, []string{"reg", "-s", "x", "-g"}}, {nil, []string{"reg", "-f", "["}}, {nil, []string{"reg", "-f", "x"}},
	{nil, []string{"reg", "--shorten"}}, {nil, []string{"reg", "--csv", "-s", "x"}}, {nil, []string{"reg", "--use-old-reg-reporter"}}, {nil, []string{"reg", "--internal-template-name", "nonsense"}},
	{nil, []string{"bal"}}, {nil, []string{"bal", "-c"}}, {nil, []string{"bal", "--collapse-last"}}, {nil, []string{"bal", "-s", "x"}}, {nil, []string{"bal", "-c", "-s", "x"}},
	{nil, []string{"csv", "log"}}, {nil, []string{"csv", "database"}}, {nil, []string{"csv", "database-resolved"}}, {nil, []string{"csv"}},
	{nil, []string{"print"}}, {nil, []string{"report", "totals"}}, {nil, []string{"report", "quantity", "--desc"}}, {nil, []string{"report", "unresolved"}},
	{nil, []string{"report", "element-total", "x"}}, {nil, []string{"report", "element-total"}}, {nil, []string{"report"}},
	{nil, []string{"summary", "2021/01/24"}}, {nil, []string{"summary"}}, {nil, []string{"summary", "garbage"}}, {nil, []string{"summary", "today"}},
	{nil, []string{"stats"}}, {nil, []string{"lint", "log.yaml"}}, {nil, []string{"lint", "--silent", "food.yaml"}}, {nil, []string{"lint"}}, {nil, []string{"lint", "nonexistent"}},
	{[]string{"--maxdepth", "0"}, []string{"reg"}}, {[]string{"--maxdepth", "1"}, []string{"bal", "-s", "x"}}, {[]string{"--maxdepth", "-5"}, []string{"csv", "database-resolved"}},
	{[]string{"-b", "garbage"}, []string{"reg"}}, {[]string{"-b", "last week", "-e", "tomorrow"}, []string{"print"}}, {[]string{"-e", ""}, []string{"bal"}},
	{[]string{"--date-format", ""}, []string{"reg"}}, {[]string{"--date-format", "garbage"}, []string{"stats"}}, {[]string{"--no-database"}, []string{"reg"}},
	{[]string{"--today", "garbage"}, []string{"reg"}}, {[]string{"--nonsense"}, []string{"reg"}}, {nil, []string{"nonsense"}}, {nil, nil}, {[]string{"-d", "nonexistent"}, []string{"reg"}},
	{[]string{"-l", "nonexistent"}, []string{"stats"}}, {[]string{"--config", "log.yaml"}, []string{"reg"}},
}

func checkC08(w *Worker) {
	w.appInit()
	maxTok, maxLines := 5, 2
	if w.Tier == "thorough" {
		maxTok, maxLines = 6, 3
	}
	// ---- byte level: every token string up to maxTok tokens through the parser, three callback styles
	w.Explore("parser-token-strings", ExploreOpts{ShardDepth: 3, NoAudit: true}, func(x *Exec) {
		style := x.Choose(3, "input:callback-style")
		n := x.Choose(maxTok+1, "input:length")
		var sb strings.Builder
		for i := 0; i < n; i++ {
			sb.WriteString(c08Tokens[x.Choose(len(c08Tokens), "input:token")])
		}
		text := sb.String()
		pan := ""
		calls := 0
		func() {
			defer func() {
				if r := recover(); r != nil {
					switch r.(type) {
					case abortNotMine, harnessError:
						panic(r)
					}
					pan = fmt.Sprint(r)
				}
			}()
			parser.ParseStreamCallback(strings.NewReader(text), parser.NewDefaultConfig(), func(nd *shared.ParserNode, err error) (bool, error) {
				calls++
				if calls > 1000 {
					panic("callback called more than 1000 times for a string of at most 18 bytes")
				}
				switch style {
				case 0:
					if err != nil {
						return true, err
					}
				case 1:
					if err != nil {
						return false, nil
					}
				}
				if err == nil {
					_ = nd.Header
					_ = len(nd.Elements)
				}
				return false, nil
			})
		}()
		x.Obs(pan)
		x.Case(text, n > 0)
		if x.w.Executions%50021 == 0 {
			x.Sample(map[string]interface{}{"bytes": text, "callback_style": style})
		}
		if pan != "" {
			x.Violate("C08|parser|panic", fmt.Sprintf("ParseStreamCallback on %q (callback style %d) panics: %s", text, style, pan), map[string]interface{}{"bytes": text})
		}
	})
	// ---- line level: files of <= maxLines lines over the line shapes, in every role, through every command shape
	goodBook := "r1:\n  cal: 2\n"
	goodLog := "2021/01/24:\n  r1: 1\n"
	lineFiles := func(x *Exec) string {
		n := x.Choose(maxLines+1, "input:lines")
		var sb strings.Builder
		for i := 0; i < n; i++ {
			sb.WriteString(c08Lines[x.Choose(len(c08Lines), "input:line")])
			sb.WriteString("\n")
		}
		return sb.String()
	}
	runOne := func(x *Exec, files map[string]string, cmd c08Cmd, what string) {
		args := append(append([]string{"--no-color"}, cmd.Global...), cmd.Args...)
		c := appCase{Args: args, Files: files}
		x.Journal("C08|"+strings.Join(append(cmd.Global, cmd.Args...), " "), "`"+c.shell()+"`")
		x.w.watch("`" + c.shell() + "`")
		r := runApp(c)
		x.w.unwatch()
		x.Obs(fmt.Sprint(r.Failed), firstLine(r.Panic))
		if strings.HasPrefix(r.Err, "VERIF: the command does not return") {
			// under the scheduler every goroutine of the command ended up blocked: it runs without bound (deadlock)
			name := strings.Join(append(append([]string{}, cmd.Global...), cmd.Args...), " ")
			x.Violate("C08|"+name+"|does-not-terminate", fmt.Sprintf("`%s`: %s", tailStr(c.shell(), 600), r.Err), map[string]interface{}{"args": args})
			return
		}
		if r.Panic != "" {
			name := strings.Join(append(append([]string{}, cmd.Global...), cmd.Args...), " ")
			x.Violate("C08|"+name+"|panic", fmt.Sprintf("`%s` panics: %s", c.shell(), r.Panic), map[string]interface{}{"cmd": c.shell(), "files": files, "args": args})
		}
		if x.w.Executions%9973 == 0 {
			x.Sample(map[string]interface{}{"cmd": c.shell(), "failed": r.Failed, "error": r.Err})
		}
	}
	w.Explore("line-files-x-commands", ExploreOpts{ShardDepth: 4, NoAudit: true}, func(x *Exec) {
		ci := x.Choose(len(c08Cmds), "input:command")
		role := x.Choose(3, "input:role") // 0: book, 1: log, 2: both
		text := lineFiles(x)
		files := map[string]string{"food.yaml": goodBook, "log.yaml": goodLog}
		if role == 0 || role == 2 {
			files["food.yaml"] = text
		}
		if role == 1 || role == 2 {
			files["log.yaml"] = text
		}
		x.Case(fmt.Sprint(ci, role, text), text != "")
		runOne(x, files, c08Cmds[ci], "lines")
	})
	// ---- short token strings as whole files through the commands that touch every node
	tokCmds := []c08Cmd{{nil, []string{"csv", "database"}}, {nil, []string{"stats"}}, {nil, []string{"lint", "food.yaml"}}, {nil, []string{"reg"}}, {nil, []string{"print"}}, {nil, []string{"bal", "-c"}}, {nil, []string{"csv", "database-resolved"}}}
	w.Explore("token-files-x-commands", ExploreOpts{ShardDepth: 3, NoAudit: true}, func(x *Exec) {
		ci := x.Choose(len(tokCmds), "input:command")
		n := 1 + x.Choose(3, "input:length")
		var sb strings.Builder
		for i := 0; i < n; i++ {
			sb.WriteString(c08Tokens[x.Choose(len(c08Tokens), "input:token")])
		}
		text := sb.String()
		x.Case(fmt.Sprint(ci, text), true)
		runOne(x, map[string]string{"food.yaml": text, "log.yaml": text}, tokCmds[ci], "tokens")
	})
	// ---- every subset of the boolean flags of reg / bal / report / lint (global and sub-command), with and without valued flags
	type flagCmd struct {
		name   string
		bools  []string
		valued [][]string
		tail   []string
	}
	flagCmds := []flagCmd{
		{"reg", []string{"--csv", "--no-color", "--no-totals", "--totals-only", "--shorten", "--use-old-reg-reporter", "-g"}, [][]string{nil, {"-s", "cal"}, {"-f", "r"}, {"--internal-template-name", "left-aligned"}}, nil},
		{"bal", []string{"--collapse-last", "-c"}, [][]string{nil, {"-s", "cal"}, {"-b", "2021/01/24"}}, nil},
		{"lint", []string{"--silent"}, [][]string{nil}, []string{"log.yaml"}},
		{"print", nil, [][]string{nil, {"-b", "2021/01/25", "-e", "2021/01/24"}}, nil},
	}
	flagInputs := []map[string]string{
		{"food.yaml": goodBook, "log.yaml": goodLog},
		{"food.yaml": goodBook + "r2:\n  r1: 2\n  fat: -1\n", "log.yaml": "2021/01/24:\n  r1: 1\n  u: -2\n  r1: 0.5\n2021/01/25:\n2021/01/26:\n  a/b/c: 1\n  r2: 0\n"},
		{"food.yaml": "", "log.yaml": ""},
	}
	w.Explore("flag-subsets", ExploreOpts{ShardDepth: 4, NoAudit: true}, func(x *Exec) {
		fc := flagCmds[x.Choose(len(flagCmds), "input:command")]
		in := flagInputs[x.Choose(len(flagInputs), "input:input")]
		var global []string
		if x.Choose(2, "config:global-no-color") == 1 {
			global = append(global, "--no-color")
		}
		if x.Choose(2, "config:no-database") == 1 {
			global = append(global, "--no-database")
		}
		args := []string{fc.name}
		for _, b := range fc.bools {
			if x.Choose(2, "config:"+b) == 1 {
				args = append(args, b)
			}
		}
		args = append(args, fc.valued[x.Choose(len(fc.valued), "config:valued")]...)
		args = append(args, fc.tail...)
		x.Case(fmt.Sprint(global, args), len(args) > 1)
		c := appCase{Args: append(global, args...), Files: in}
		x.Journal("C08|flag-subsets", "`"+c.shell()+"`")
		r := runApp(c)
		x.Obs(fmt.Sprint(r.Failed), firstLine(r.Panic))
		if r.Panic != "" {
			x.Violate("C08|"+fc.name+" flag combination|panic", fmt.Sprintf("`%s` panics: %s", c.shell(), r.Panic), map[string]interface{}{"cmd": c.shell(), "args": c.Args})
		}
	})
	// ---- unreadable inputs: a directory as file, lines that do not fit the scanner's buffer (before and
	// after the first heading, as comment, as heading, as entry, without any newline), in every role x every command
	os.MkdirAll(filepath.Join(theApp.dir, "adir"), 0o755)
	long := strings.Repeat("x", 70000)
	unreadable := []struct{ name, text string }{
		{"long-first-line", long + "\n2021/01/24:\n  r1: 1\n"},
		{"long-comment-first", "# " + long + "\n2021/01/24:\n  r1: 1\n"},
		{"long-heading", long + ":\n  r1: 1\n"},
		{"long-entry-after-heading", "2021/01/24:\n  " + long + ": 1\n  r1: 1\n"},
		{"long-without-newline", long},
		{"long-last-line", "2021/01/24:\n  r1: 1\n  " + long},
		{"directory", ""},
	}
	w.Explore("unreadable-inputs-x-commands", ExploreOpts{ShardDepth: 3, NoAudit: true}, func(x *Exec) {
		ci := x.Choose(len(c08Cmds), "input:command")
		ui := x.Choose(len(unreadable), "input:unreadable")
		role := x.Choose(3, "input:role")
		u := unreadable[ui]
		cmd := c08Cmds[ci]
		files := map[string]string{"food.yaml": goodBook, "log.yaml": goodLog}
		if u.name == "directory" {
			g := append([]string{}, cmd.Global...)
			if role == 0 || role == 2 {
				g = append(g, "-d", "adir")
			}
			if role == 1 || role == 2 {
				g = append(g, "-l", "adir")
			}
			args := append([]string{}, cmd.Args...)
			if len(args) > 0 && args[0] == "lint" && role != 0 {
				args = []string{"lint", "adir"}
			}
			cmd = c08Cmd{g, args}
		} else {
			if role == 0 || role == 2 {
				files["food.yaml"] = u.text
			}
			if role == 1 || role == 2 {
				files["log.yaml"] = u.text
			}
		}
		x.Case(fmt.Sprint(ci, ui, role), true)
		runOne(x, files, cmd, "unreadable")
	})
	// ---- sizes: counts and lengths past every small capacity (8, 16, 32, 64, 128, 256) along each dimension of the input,
	// through every command shape; for the widest-reaching dimension (distinct elements per day) every PAIR of
	// consecutive day sizes, so that whatever is sized on one day and reused on the next meets both growth directions
	sizes := []int{1, 9, 17, 33, 40, 65, 70, 129, 300}
	sizeDims := []string{"distinct-elements-per-day(pairs)", "elements-of-a-recipe", "recipes-in-the-book", "days", "name-length", "path-depth", "repeats-and-notes-in-a-day", "ingredient-recipes-of-a-recipe", "bad-heading-between-two-runs-of-days"}
	w.Explore("sizes-x-commands", ExploreOpts{ShardDepth: 3, NoAudit: true}, func(x *Exec) {
		dim := x.Choose(len(sizeDims), "input:dimension")
		n := sizes[x.Choose(len(sizes), "input:size")]
		n2 := 0
		if dim == 0 {
			n2 = sizes[x.Choose(len(sizes), "input:size-of-second-day")]
		}
		ci := x.Choose(len(c08Cmds), "input:command")
		var book, lg strings.Builder
		book.WriteString(goodBook)
		switch dim {
		case 0:
			for d, k := range []int{n, n2} {
				lg.WriteString(fmt.Sprintf("2021/01/%02d:\n  r1: 1\n", 24+d))
				for i := 0; i < k; i++ {
					lg.WriteString(fmt.Sprintf("  el%03d: %d\n", (i*7+d*3)%400, i-3))
				}
			}
		case 1:
			book.WriteString("x:\n")
			for i := 0; i < n; i++ {
				book.WriteString(fmt.Sprintf("  el%03d: %d\n", (i*7)%400, i-3))
			}
			lg.WriteString("2021/01/24:\n  x: 2\n  r1: 1\n2021/01/25:\n  x: -1\n")
		case 2:
			for i := 0; i < n; i++ {
				book.WriteString(fmt.Sprintf("x%03d:\n  cal: %d\n  x%03d: 1\n", i, i, (i+1)%n+1000*btoi(i%3 != 0)))
			}
			lg.WriteString("2021/01/24:\n  x000: 2\n  x/y: 1\n")
		case 3:
			for i := 0; i < n; i++ {
				lg.WriteString(fmt.Sprintf("20%02d/%02d/%02d:\n  r1: 1\n  x: %d\n", 21+i/336, 1+(i/28)%12, 1+i%28, i))
			}
		case 4:
			long := strings.Repeat("n", n*17)
			book.WriteString("x" + long + ":\n  e" + long + ": 1\n")
			lg.WriteString("2021/01/24:\n  x" + long + ": 2\n  u" + long + ": 1\n  # " + long + ": " + long + "\n")
		case 5:
			deep := strings.Repeat("s/", n) + "leaf"
			book.WriteString(deep + ":\n  cal: 1\n")
			lg.WriteString("2021/01/24:\n  " + deep + ": 2\n  " + strings.Repeat("s/", n/2) + "other: 1\n")
		case 6:
			lg.WriteString("2021/01/24:\n")
			for i := 0; i < n; i++ {
				lg.WriteString(fmt.Sprintf("  r1: 1\n  # note%d: v\n  u: -1\n", i))
			}
		case 8:
			// an error raised while a day is handled (a heading that is not a date), n days after the start and n before the end
			for i := 0; i < 2*n+1; i++ {
				if i == n {
					lg.WriteString("2000/12/45:\n  r1: 1\n")
					continue
				}
				lg.WriteString(fmt.Sprintf("20%02d/%02d/%02d:\n  r1: 1\n  x: %d\n", 21+i/336, 1+(i/28)%12, 1+i%28, i))
			}
		case 7:
			book.WriteString("x:\n")
			for i := 0; i < n; i++ {
				book.WriteString(fmt.Sprintf("  i%03d: 1\n", i))
			}
			for i := 0; i < n; i++ {
				book.WriteString(fmt.Sprintf("i%03d:\n  cal: 1\n  e%03d: 2\n", i, i%40))
			}
			lg.WriteString("2021/01/24:\n  x: 2\n")
		}
		x.Case(fmt.Sprint(sizeDims[dim], n, n2, ci), true)
		runOne(x, map[string]string{"food.yaml": book.String(), "log.yaml": lg.String()}, c08Cmds[ci], "sizes")
	})
	// ---- the program as a whole (main included): every command shape x a handful of inputs on the real binary, one
	// process per run - exit status 0 with a report or non-zero with the error message, nothing in between
	binInputs := []map[string]string{
		{"food.yaml": goodBook, "log.yaml": goodLog},
		{"food.yaml": goodBook, "log.yaml": "2021/01/24:\n  r1: q\n"},
		{"food.yaml": "r1:\n  cal:2\n", "log.yaml": goodLog},
		{"food.yaml": "c0:\n  c1: 1\nc1:\n  c0: 1\n", "log.yaml": "2021/01/24:\n  c0: 1\n"},
		{"food.yaml": goodBook, "log.yaml": "notadate:\n  r1: 1\n"},
		{"food.yaml": "\xff\xfe\x00", "log.yaml": "\x00\x01\x02:\n  \xff: 1\n"},
		{"food.yaml": "", "log.yaml": ""},
	}
	w.Explore("real-binary-x-commands", ExploreOpts{ShardDepth: 2, NoAudit: true}, func(x *Exec) {
		ci := x.Choose(len(c08Cmds), "input:command")
		ii := x.Choose(len(binInputs), "input:input")
		cmd := c08Cmds[ci]
		args := append(append([]string{"--no-color"}, cmd.Global...), cmd.Args...)
		c := appCase{Args: args, Files: binInputs[ii]}
		name := strings.Join(append(append([]string{}, cmd.Global...), cmd.Args...), " ")
		x.Journal("C08|"+name, "`"+c.shell()+"`")
		r := runApp(c)
		x.Case(fmt.Sprint("bin", ci, ii), true)
		x.Obs(fmt.Sprint(r.Failed), firstLine(r.Panic))
		if r.Panic != "" {
			x.Violate("C08|"+name+"|panic", fmt.Sprintf("`%s` panics: %s", c.shell(), r.Panic), map[string]interface{}{"cmd": c.shell(), "files": c.Files, "args": args})
			return
		}
		x.w.binMustAgree(x, c, r, "C08|"+name)
	})
	// ---- every special scenario (harness/specials.go) through every command shape
	c08Specials := specialScenarios()
	w.Explore("special-scenarios-x-commands", ExploreOpts{ShardDepth: 3, NoAudit: true}, func(x *Exec) {
		sc := c08Specials[x.Choose(len(c08Specials), "input:scenario")]
		ci := x.Choose(len(c08Cmds), "input:command")
		x.Case(fmt.Sprint(sc.Name, ci), true)
		runOne(x, map[string]string{"food.yaml": renderBook(sc.Book), "log.yaml": renderLog(sc.Log)}, c08Cmds[ci], "specials")
	})
	// ---- books that nest and share at once: few recipes, astronomically many paths - a command that walks paths instead of
	// recipes does not come back (the watchdog reports the case)
	w.Explore("nesting-and-sharing-books", ExploreOpts{ShardDepth: 3, NoAudit: true}, func(x *Exec) {
		shape := x.Choose(4, "input:levels-x-width")
		ci := x.Choose(7, "input:command")
		src := x.Choose(2, "input:limit-source")
		L, W, depth := []int{30, 44, 9, 9}[shape], []int{2, 2, 14, 4}[shape], []string{"100", "100", "", ""}[shape]
		cmd := []c08Cmd{{nil, []string{"reg"}}, {nil, []string{"csv", "database-resolved"}}, {nil, []string{"report", "element-total", "cal"}}, {nil, []string{"bal", "-s", "cal"}},
			{nil, []string{"report", "totals"}}, {nil, []string{"summary", "2021/01/24"}}, {nil, []string{"report", "unresolved"}}}[ci]
		files := map[string]string{"food.yaml": c08Lattice(L, W), "log.yaml": "2021/01/24:\n  l00/r00: 1\n  l01/r00: 2\n"}
		if depth != "" {
			if src == 0 {
				cmd.Global = []string{"--maxdepth", depth}
			} else {
				files["depth.cfg"] = "[Resolver]\nMaxDepth=" + depth + "\n"
				cmd.Global = []string{"--config", "depth.cfg"}
			}
		}
		x.Case(fmt.Sprint(shape, ci, src), true)
		runOne(x, files, cmd, "lattice")
	})
	// ---- cycles of every length <= 4 and deep chains against every depth limit, incl. an absurd one
	depths := []string{"1", "2", "3", "10", "100000", "2000000000"}
	w.Explore("cycles-and-depth-limits", ExploreOpts{ShardDepth: 3, NoAudit: true}, func(x *Exec) {
		cyc := 1 + x.Choose(4, "input:cycle-length")
		tail := x.Choose(3, "input:tail-length") // chain leading into the cycle
		depth := depths[x.Choose(len(depths), "input:maxdepth")]
		ci := x.Choose(4, "input:command")
		var sb strings.Builder
		for i := 0; i < tail; i++ {
			sb.WriteString(fmt.Sprintf("t%d:\n  %s: 1\n", i, ifs(i+1 < tail, fmt.Sprintf("t%d", i+1), "c0")))
		}
		for i := 0; i < cyc; i++ {
			sb.WriteString(fmt.Sprintf("c%d:\n  c%d: 1\n  cal: 1\n", i, (i+1)%cyc))
		}
		cmd := []c08Cmd{{nil, []string{"reg"}}, {nil, []string{"csv", "database-resolved"}}, {nil, []string{"report", "element-total", "cal"}}, {nil, []string{"bal", "-s", "cal"}}}[ci]
		cmd.Global = []string{"--maxdepth", depth}
		x.Case(fmt.Sprint(cyc, tail, depth, ci), true)
		runOne(x, map[string]string{"food.yaml": sb.String(), "log.yaml": "2021/01/24:\n  t0: 1\n  c0: 1\n"}, cmd, "cycles")
	})
}

// c08Lattice: L levels of W recipes, every recipe of a level using every recipe of the next (nesting and sharing at once:
// W^L paths through L*W recipes)
func c08Lattice(L, W int) string {
	var sb strings.Builder
	for l := 0; l < L; l++ {
		for w := 0; w < W; w++ {
			sb.WriteString(fmt.Sprintf("l%02d/r%02d:\n", l, w))
			if l == L-1 {
				sb.WriteString("  cal: 1\n")
				continue
			}
			for v := 0; v < W; v++ {
				sb.WriteString(fmt.Sprintf("  l%02d/r%02d: 1\n", l+1, v))
			}
		}
	}
	return sb.String()
}

func ifs(c bool, a, b string) string {
	if c {
		return a
	}
	return b
}
