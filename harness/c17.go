package main

import (
	"fmt"
	"os"
	"os/exec"
	"strings"
)

func init() { propChecks["C17"] = checkC17 }

var c17Cmds = append(shapeArgs(func(s cmdShape) bool { return true }), []string{"lint", "bad.yaml"}, []string{"bal", "-s", "cal", "--collapse-last"},
	// commands whose result is empty: whatever they print instead (nothing on this tree) is a report like any other
	[]string{"report", "element-total", "no-such-element"}, []string{"reg", "-s", "no-such-element"}, []string{"reg", "-f", "no-such-food"}, []string{"bal", "-s", "no-such-element"},
	[]string{"summary", "1999/01/01"}, []string{"-b", "2999/01/01", "reg"}, []string{"-b", "2999/01/01", "bal"}, []string{"-e", "1999/01/01", "csv", "log"}, []string{"-e", "1999/01/01", "report", "quantity"},
	[]string{"-e", "1999/01/01", "report", "totals"}, []string{"-e", "1999/01/01", "print"}, []string{"--no-database", "report", "unresolved"}, []string{"-e", "1999/01/01", "report", "unresolved"})

func c17Inputs() []map[string]string {
	small := map[string]string{"food.yaml": "r1:\n  cal: 2\n", "log.yaml": "2021/01/24:\n  r1: 1\n  u: 2\n", "bad.yaml": "x:\n  y:1\n"}
	mid := map[string]string{"food.yaml": "r1:\n  cal: 2\n  fat: 1\nr2:\n  r1: 2\n  prot: 1\n", "log.yaml": "2021/01/24:\n  # mood: ok\n  r1: 1\n  a/b: 2\n  a/c: 1\n2021/01/25:\n  r2: 1\n  u: 3\n", "bad.yaml": "x:\n  y:1\n  z: q\n"}
	var bl, bb strings.Builder
	for d := 1; d <= 28; d++ {
		bl.WriteString(fmt.Sprintf("2021/02/%02d:\n", d))
		for e := 0; e < 8; e++ {
			bl.WriteString(fmt.Sprintf("  food/number/%d/%d: %d\n", d, e, e+1))
		}
		bl.WriteString("  r1: 1\n")
	}
	for r := 0; r < 150; r++ {
		bb.WriteString(fmt.Sprintf("recipe/%03d:\n  cal: %d\n  fat: 1\n  prot: 2\n", r, r))
	}
	bb.WriteString("r1:\n  cal: 2\n")
	var bad strings.Builder
	bad.WriteString("x:\n")
	for i := 0; i < 200; i++ {
		bad.WriteString(fmt.Sprintf("  a-malformed-entry-number-%d:oops\n", i))
	}
	big := map[string]string{"food.yaml": bb.String(), "log.yaml": bl.String(), "bad.yaml": bad.String()}
	// single output lines longer than the 4096-byte buffer of a bufio.Writer (such a write bypasses the buffer): names of
	// 4200..5000 bytes as the first and as a later row of every report, in the log, the book, a note and a malformed line
	la, lz, le := strings.Repeat("a", 5000), "z"+strings.Repeat("y", 4300), "e"+strings.Repeat("l", 4200)
	long := map[string]string{
		"food.yaml": la + "/in/the/book:\n  " + le + ": 2\n  cal: 1\nr1:\n  cal: 2\n",
		"log.yaml":  "2021/01/24:\n  # " + lz + ": " + la + "\n  " + la + ": 1\n  r1: 1\n  " + lz + ": 2\n2021/01/25:\n  " + la + "/in/the/book: 2\n  m: 1\n",
		"bad.yaml":  "x:\n  " + la + ":1\n  short: q\n  " + lz + ": q\n",
	}
	// a log without a single day, a book without a single recipe (what the commands print then is a report too)
	noDays := map[string]string{"food.yaml": "r1:\n  cal: 2\n", "log.yaml": "# nothing logged yet\n\n", "bad.yaml": "x:\n  y:1\n"}
	noRecipes := map[string]string{"food.yaml": "# no recipes yet\n", "log.yaml": "2021/01/24:\n  r1: 1\n  u: 2\n", "bad.yaml": "x:\n  y:1\n"}
	return []map[string]string{small, mid, big, long, noDays, noRecipes}
}

func checkC17(w *Worker) {
	w.appInit()
	inputs := c17Inputs()
	baseCache := map[string]AppRun{}
	offsets := func(n int) []int {
		if n <= 700 || w.Tier == "thorough" {
			out := make([]int, n)
			for i := range out {
				out[i] = i
			}
			return out
		}
		seen := map[int]bool{}
		var out []int
		add := func(k int) {
			if k >= 0 && k < n && !seen[k] {
				seen[k] = true
				out = append(out, k)
			}
		}
		for k := 0; k < 64; k++ {
			add(k)
			add(n - 1 - k)
		}
		for m := 4096; m < n+4096; m += 4096 {
			add(m - 1)
			add(m)
			add(m + 1)
		}
		for k := 0; k < n; k += 97 {
			add(k)
		}
		return out
	}
	capped := false
	w.Explore("sink-faults", ExploreOpts{ShardDepth: 3}, func(x *Exec) {
		ci := x.Choose(len(c17Cmds), "input:command")
		ii := x.Choose(len(inputs), "input:input")
		cmd := c17Cmds[ci]
		in := inputs[ii]
		args := append([]string{"--no-color"}, cmd...)
		key := fmt.Sprint(ci, ii)
		base, ok := baseCache[key]
		if !ok {
			before := concurrentAppRuns
			base = runCU(cuCase{Args: args, Files: in})
			if concurrentAppRuns == before {
				baseCache[key] = base
			}
		}
		n := len(base.Stdout)
		offs := offsets(n)
		if len(offs) < n {
			capped = true
			x.Note("reports_with_sampled_offsets", 1)
		}
		if n == 0 {
			x.Case("empty-report "+key, false)
			return
		}
		k := offs[x.Choose(len(offs), "fault:offset")]
		wr := &faultWriter{Accept: k}
		r := runCU(cuCase{Args: args, Files: in, Out: wr})
		x.Obs(r.Key())
		cname := strings.Join(cmd, " ")
		x.Case(fmt.Sprint(key, k), wr.Failed)
		x.Sample(map[string]interface{}{"cmd": cname, "report_bytes": n, "sink_accepts": k, "error": r.Err})
		if r.Panic != "" {
			x.Violate("C17|"+cname+"|panic", r.String(), nil)
			return
		}
		if !wr.Failed {
			x.Violate("C17|"+cname+"|short-report", fmt.Sprintf("`%s`: the report is %d bytes without faults, but with a sink accepting %d bytes the command never wrote past it", cname, n, k), nil)
			return
		}
		if !r.Failed {
			x.Violate("C17|"+cname+"|exit-0-after-sink-failure", fmt.Sprintf("`%s` (input %d): the sink accepted %d of %d bytes and then failed, the command returned no error", cname, ii, k, n),
				map[string]interface{}{"cmd": cname, "input": ii, "report_bytes": n, "sink_accepts": k, "files": smallFiles(in)})
		}
	})
	w.Info["offsets_sampled_for_large_reports"] = capped
	// real binary: /dev/full and a closed pipe
	if w.Bin != "" {
		w.Explore("real-binary-dev-full-and-closed-pipe", ExploreOpts{ShardDepth: 2, NoAudit: true}, func(x *Exec) {
			ci := x.Choose(len(c17Cmds), "input:command")
			sink := x.Choose(2, "fault:sink")
			cmd := c17Cmds[ci]
			cname := strings.Join(cmd, " ")
			writeFiles(inputs[1])()
			probe := w.runBin(appCase{Args: append([]string{"--no-color"}, cmd...), Files: inputs[1]}, "")
			if len(probe.Stdout) == 0 {
				x.Case("skip: the command writes nothing to stdout here", false)
				return
			}
			c := exec.Command(w.Bin, append([]string{"--no-color"}, cmd...)...)
			c.Dir = theApp.dir
			c.Env = []string{"HOME=" + theApp.dir, "TZ=UTC"}
			sinkName := "/dev/full"
			var closer func()
			if sink == 0 {
				f, err := os.OpenFile("/dev/full", os.O_WRONLY, 0)
				if err != nil {
					x.Case("no /dev/full", false)
					return
				}
				c.Stdout = f
				closer = func() { f.Close() }
			} else {
				sinkName = "closed pipe"
				pr, pw, err := os.Pipe()
				if err != nil {
					hfail("pipe: %v", err)
				}
				pr.Close()
				c.Stdout = pw
				closer = func() { pw.Close() }
			}
			err := c.Run()
			closer()
			x.Case(fmt.Sprint(ci, sink), true)
			x.Obs(fmt.Sprint(err != nil))
			if err == nil {
				x.Violate("C17|"+cname+"|exit-0-on-"+strings.ReplaceAll(sinkName, " ", "-"), fmt.Sprintf("`hranoprovod-cli --no-color %s > %s` exits with status 0", cname, sinkName), map[string]interface{}{"cmd": cname, "sink": sinkName, "files": inputs[1]})
			}
		})
	}
}

func smallFiles(m map[string]string) map[string]string {
	out := map[string]string{}
	for k, v := range m {
		if len(v) > 400 {
			v = v[:400] + "...(truncated)"
		}
		out[k] = v
	}
	return out
}
