package main

import (
	"fmt"
	"strings"
)

func init() { propChecks["C02"] = checkC02 }

var c02Books = []absBook{
	{{"r1", []absIng{{"cal", 2}, {"fat", 0.5}}}, {"r2", []absIng{{"cal", 1}}}},
	{{"r1", nil}, {"r2", []absIng{{"cal", 1}}}},
	{{"r1", []absIng{{"r2", 2}, {"fat", 1}}}, {"r2", []absIng{{"cal", 0.5}, {"fat", -1}}}},
	{{"r1", []absIng{{"e", 2}, {"cal", 1}}}, {"r2", []absIng{{"e", -1}}}},
	{{"r1", []absIng{{"cal", 2}, {"fat", -0.5}}}, {"r2", []absIng{{"cal", -1}, {"fat", 0.25}, {"r1", 0}}}},
	// three levels, first ingredient a recipe taken once; visited bottom-up under reverse map order ...
	{{"r1", []absIng{{"r2", 1}, {"cal", 2}}}, {"r2", []absIng{{"zz", 1}, {"fat", 1}, {"cal", 0.5}}}, {"zz", []absIng{{"cal", 3}, {"fat", 0.5}}}},
	// ... and top-down
	{{"r2", []absIng{{"r1", 1}, {"cal", 2}}}, {"r1", []absIng{{"aa", 1}, {"fat", 1}, {"cal", 0.5}}}, {"aa", []absIng{{"cal", 3}, {"fat", 0.5}}}},
}

var c02Foods = []string{"r1", "r2", "u", "e"}
var c02Qty = []float64{1, -1, 0, 2, 0.5}

type regRenderer struct {
	Name   string
	Args   []string
	Layout string
}

var regRenderers = []regRenderer{
	{"default", []string{"--no-color", "reg"}, "default"},
	{"left-aligned", []string{"--no-color", "reg", "--internal-template-name", "left-aligned"}, "left-aligned"},
	{"old", []string{"--no-color", "reg", "--use-old-reg-reporter"}, "default"},
	{"default-in-colour", []string{"reg"}, "default"}, // the plain invocation: escape codes are removed before parsing
	// --group-food qualifies --single-element; on its own it selects nothing else than the register (should a tree
	// reject the lone flag with an error, that is not C02's business: only a successful run is compared)
	{"group-food-without-single-element", []string{"--no-color", "reg", "-g"}, "default"},
	// --shorten may cut names to their columns (27 for foods, 20 for ingredients and totals) and nothing else: the same
	// rows with the same numbers in the same order, every name the original or a prefix ... suffix of it
	{"default --shorten", []string{"--no-color", "reg", "--shorten"}, "default"},
}

// parseSummary parses `summary` output into days whose Totals carry only Pos.
func parseSummary(out string) ([]rDay, error) {
	var days []rDay
	var cur *rDay
	below := false
	for ln, line := range splitLines(out) {
		switch {
		case strings.HasSuffix(line, " :") && !strings.HasPrefix(line, " "):
			days = append(days, rDay{Date: strings.TrimSuffix(line, " :")})
			cur = &days[len(days)-1]
			below = false
		case line == "------------":
			below = true
		default:
			if cur == nil {
				return nil, fmt.Errorf("line %d %q before a date", ln+1, line)
			}
			i := strings.Index(line, " : ")
			if i < 0 {
				return nil, fmt.Errorf("line %d %q: no ' : '", ln+1, line)
			}
			val, name := normNum(strings.TrimSpace(line[:i])), line[i+3:]
			if below {
				cur.Foods = append(cur.Foods, rFood{Name: name, Qty: val})
			} else {
				cur.Totals = append(cur.Totals, rTotal{Name: name, Pos: val})
			}
		}
	}
	return days, nil
}

func summaryString(ds []rDay) string {
	s := ""
	for _, d := range ds {
		s += d.Date + "{"
		for _, t := range d.Totals {
			s += fmt.Sprintf("%s:+%s ", t.Name, t.Pos)
		}
		s += "| "
		for _, f := range d.Foods {
			s += fmt.Sprintf("%s=%s ", f.Name, f.Qty)
		}
		s += "}\n"
	}
	return s
}

func checkC02(w *Worker) {
	w.appInit()
	maxFirst, maxSecond := 3, 1
	dates := []string{"2021/01/25", "2021/01/24", "2021/01/25"} // file order is not chronological; a date may repeat
	genDay := func(x *Exec, date string, max int) absDay {
		d := absDay{Date: date}
		n := x.Choose(max+1, "input:entries")
		for i := 0; i < n; i++ {
			f := c02Foods[x.Choose(len(c02Foods), "input:food")]
			q := c02Qty[x.Choose(len(c02Qty), "input:qty")]
			d.Entries = append(d.Entries, absIng{f, q})
		}
		return d
	}
	nRend := len(regRenderers) + 1
	verify := func(x *Exec, bi, ri int, book absBook, lg absLog) {
		files := map[string]string{"food.yaml": renderBook(book), "log.yaml": renderLog(lg)}
		want := refRegister(book, lg)
		nontriv := false
		for _, d := range lg {
			seen := map[string]bool{}
			for _, e := range d.Entries {
				if seen[e.Name] {
					nontriv = true
				}
				seen[e.Name] = true
			}
		}
		x.Case(fmt.Sprintf("%d|%s", bi, lg), nontriv || len(lg) > 1)
		if ri == len(regRenderers) {
			// summary DATE: the register of that day - positive column of the totals, merged foods
			c := appCase{Args: []string{"--no-color", "summary", dates[0]}, Files: files}
			r := runApp(c)
			x.Obs(r.Key())
			rep := map[string]interface{}{"cmd": c.shell(), "book": book.String(), "log": lg.String(), "observed": r.String()}
			if r.Failed || r.Panic != "" {
				x.Violate("C02|summary|failed", fmt.Sprintf("`%s` failed: %s", c.shell(), r.String()), rep)
				return
			}
			got, err := parseSummary(r.Stdout)
			if err != nil {
				x.Violate("C02|summary|unparseable", fmt.Sprintf("`%s`: %v\n%s", c.shell(), err, r.Stdout), rep)
				return
			}
			var sel []rDay
			for _, d := range want {
				if d.Date == dates[0] {
					sel = append(sel, d)
				}
			}
			if summaryString(got) != summaryString(sel) {
				rep["expected"] = summaryString(sel)
				x.Violate("C02|summary|differs-from-register", fmt.Sprintf("`%s`\nprinted:\n%s\nparsed:   %s\nexpected: %s", c.shell(), r.Stdout, summaryString(got), summaryString(sel)), rep)
			}
			if x.w.Executions%977 == 0 {
				x.w.conform(c, r)
			}
			return
		}
		rd := regRenderers[ri]
		c := appCase{Args: rd.Args, Files: files}
		r := runApp(c)
		x.Obs(r.Key())
		x.Sample(map[string]interface{}{"cmd": c.shell(), "stdout": r.Stdout})
		rep := map[string]interface{}{"cmd": c.shell(), "book": book.String(), "log": lg.String(), "observed": r.String()}
		if r.Failed && r.Panic == "" && (rd.Name == "group-food-without-single-element" || strings.Contains(rd.Name, "--csv") || strings.Contains(rd.Name, " -g")) {
			x.Case("skip: the lone flag is rejected", false)
			return
		}
		if r.Failed || r.Panic != "" {
			x.Violate("C02|"+rd.Name+"|failed", fmt.Sprintf("`%s` failed: %s", c.shell(), r.String()), rep)
			return
		}
		got, err := parseRegister(stripANSI(r.Stdout), rd.Layout)
		if err != nil {
			x.Violate("C02|"+rd.Name+"|unparseable", fmt.Sprintf("`%s`: %v\n%s", c.shell(), err, r.Stdout), rep)
			return
		}
		if rd.Name == "default --shorten" {
			if msg := sameUpToShortening(got, want); msg != "" {
				rep["expected"] = daysString(want)
				x.Violate("C02|"+rd.Name+"|wrong-register", fmt.Sprintf("`%s`\nprinted:\n%s\n%s\nexpected (names in full):\n%s", c.shell(), tailStr(r.Stdout, 2000), msg, tailStr(daysString(want), 2000)), rep)
			}
			return
		}
		if daysString(got) != daysString(want) {
			rep["expected"] = daysString(want)
			x.Violate("C02|"+rd.Name+"|wrong-register", fmt.Sprintf("`%s`\nprinted:\n%s\nparsed:\n%s\nexpected:\n%s", c.shell(), r.Stdout, daysString(got), daysString(want)), rep)
		}
		if x.w.Executions%977 == 0 {
			x.w.conform(c, r)
		}
	}
	w.Explore("register", ExploreOpts{ShardDepth: 7}, func(x *Exec) {
		bi := x.Choose(len(c02Books), "input:book")
		ri := x.Choose(nRend, "input:renderer")
		book := c02Books[bi]
		var lg absLog
		first := genDay(x, dates[0], maxFirst)
		lg = append(lg, first)
		if len(first.Entries) <= 1 || w.Tier == "thorough" {
			nd := x.Choose(3, "input:moredays") // 0: one day; 1: a second, earlier date; 2: the same date again
			if nd > 0 {
				lg = append(lg, genDay(x, dates[nd], maxSecond))
			}
		}
		verify(x, bi, ri, book, lg)
	})
	// exotic names in every role (undefined food, recipe, element): the register must show them verbatim
	w.Explore("exotic-names", ExploreOpts{ShardDepth: 3}, func(x *Exec) {
		ri := x.Choose(nRend, "input:renderer")
		n1 := c13Names[x.Choose(len(c13Names), "input:name")]
		role := x.Choose(3, "input:role")
		if n1 == "cal" || n1 == "fat" || n1 == "r1" || n1 == "r2" || n1 == "u" {
			x.Case("skip-name-in-use", false)
			return
		}
		book := absBook{{"r1", []absIng{{"cal", 2}, {"fat", 0.5}}}}
		d := absDay{Date: dates[0]}
		switch role {
		case 0: // undefined food
			d.Entries = []absIng{{n1, 2}, {"r1", 1}, {n1, -0.5}}
		case 1: // recipe name
			book = append(book, absRecipe{n1, []absIng{{"cal", 3}, {"r1", 1}}})
			d.Entries = []absIng{{n1, 2}, {"u", 1}}
		default: // element name
			book = append(book, absRecipe{"r2", []absIng{{n1, 1.5}, {"cal", 1}}})
			d.Entries = []absIng{{"r2", 2}, {n1, 1}}
		}
		verify(x, 0, ri, book, absLog{d})
	})
	// a log whose report crosses the 4096-byte output buffer many times (and whose input crosses the
	// scanner's buffer): 120 days x 3 entries with exotic and plain names
	w.Explore("large-log", ExploreOpts{ShardDepth: 2}, func(x *Exec) {
		ri := x.Choose(nRend, "input:renderer")
		bi := x.Choose(len(c02Books), "input:book")
		var lg absLog
		for d := 0; d < 120; d++ {
			date := fmt.Sprintf("2021/%02d/%02d", 1+d/28, 1+d%28)
			if ri == len(regRenderers) {
				date = dates[0] // summary: the same date 120 times
			}
			lg = append(lg, absDay{Date: date, Entries: []absIng{{"r1", float64(d%7) - 2}, {c13Names[d%len(c13Names)] + " x", 0.5}, {"r2", 1}, {"r1", 0.25}}})
		}
		verify(x, bi, ri, c02Books[bi], lg)
	})
	// wide days: more distinct foods than a slice's first capacities (8, 16, 32), with one or two foods
	// repeated before and after the growth points
	w.Explore("wide-days", ExploreOpts{ShardDepth: 3}, func(x *Exec) {
		ri := x.Choose(nRend, "input:renderer")
		D := []int{8, 9, 10, 16, 17, 33}[x.Choose(6, "input:distinct-foods")]
		rep1 := []int{0, 3, 7, 8}[x.Choose(4, "input:repeated-food")]
		at := x.Choose(3, "input:repeat-position") // after the 5th, after the (D-1)th, after the last distinct food
		d := absDay{Date: dates[0]}
		for j := 0; j < D; j++ {
			name := fmt.Sprintf("food/%02d", j)
			if j == 2 {
				name = "r1"
			}
			d.Entries = append(d.Entries, absIng{name, float64(int(1) << uint(j%20))})
			if rep1 < D && ((at == 0 && j == 4) || (at == 1 && j == D-2) || (at == 2 && j == D-1)) && rep1 <= j {
				d.Entries = append(d.Entries, absIng{d.Entries[rep1].Name, 0.5})
			}
		}
		d.Entries = append(d.Entries, absIng{d.Entries[0].Name, 0.25})
		verify(x, 0, ri, c02Books[0], absLog{d})
	})
	// sequences of wide days: every pair of consecutive day sizes (whatever is sized for one day and reused for the
	// next meets growth and shrinkage), foods partly shared between the days, totals with up to 130 elements
	w.Explore("wide-day-sequences", ExploreOpts{ShardDepth: 3}, func(x *Exec) {
		ri := x.Choose(nRend, "input:renderer")
		sz := []int{5, 17, 33, 40, 70, 130}
		s1 := sz[x.Choose(len(sz), "input:foods-day-1")]
		s2 := sz[x.Choose(len(sz), "input:foods-day-2")]
		third := x.Choose(2, "input:third-day")
		var lg absLog
		for di, n := range []int{s1, s2, 3} {
			if di == 2 && third == 0 {
				break
			}
			d := absDay{Date: dates[di%len(dates)]}
			for j := 0; j < n; j++ {
				name := fmt.Sprintf("el/%03d", (j*7+di*5)%150)
				if j == 2 {
					name = "r1"
				}
				d.Entries = append(d.Entries, absIng{name, float64(int(1) << uint((j+di)%20))})
			}
			d.Entries = append(d.Entries, absIng{d.Entries[0].Name, 0.25}, absIng{d.Entries[n/2].Name, -0.5})
			lg = append(lg, d)
		}
		verify(x, 0, ri, c02Books[0], lg)
	})
	// every special scenario whose amounts are exact (harness/specials.go) through every renderer, against the reference
	var c02Specials []specialScenario
	for _, sc := range specialsFor(w.Tier) {
		if sc.Exact && sc.Name != "repeated-heading-in-the-book" { // (which of two definitions counts is not C02's business)
			c02Specials = append(c02Specials, sc)
		}
	}
	// flags that qualify --single-element and select nothing on their own, alone and together, under each template
	inert := [][]string{{"--csv"}, {"--csv", "-g"}, {"--group-food", "--csv"}}
	w.Explore("inert-flags", ExploreOpts{ShardDepth: 2}, func(x *Exec) {
		ri := x.Choose(3, "input:renderer")
		fl := inert[x.Choose(len(inert), "config:inert-flags")]
		sc := c02Specials[x.Choose(len(c02Specials), "input:scenario")]
		saved := regRenderers[ri]
		regRenderers[ri].Args = append(append([]string{}, saved.Args...), fl...)
		regRenderers[ri].Name = saved.Name + " " + strings.Join(fl, " ")
		defer func() { regRenderers[ri] = saved }()
		verify(x, 101, ri, sc.Book, sc.Log)
	})
	w.Explore("special-scenarios", ExploreOpts{ShardDepth: 2}, func(x *Exec) {
		ri := x.Choose(nRend, "input:renderer")
		sc := c02Specials[x.Choose(len(c02Specials), "input:scenario")]
		if ri == len(regRenderers) {
			x.Case("skip: summary is explored on the generated logs", false)
			return
		}
		verify(x, 100, ri, sc.Book, sc.Log)
	})
	// merge shapes: longer days over a small food alphabet; the i-th entry has quantity 2^i, so the
	// merged quantity of a food identifies exactly which entries were folded into it
	maxLen := 6
	if w.Tier == "thorough" {
		maxLen = 8
	}
	mergeFoods := []string{"r1", "u", "e"}
	w.Explore("merge-shapes", ExploreOpts{ShardDepth: 5}, func(x *Exec) {
		bi := x.Choose(len(c02Books), "input:book")
		ri := x.Choose(nRend, "input:renderer")
		n := 2 + x.Choose(maxLen-1, "input:entries")
		d := absDay{Date: dates[0]}
		for i := 0; i < n; i++ {
			q := float64(int(1) << uint(i))
			if i%3 == 2 {
				q = -q
			}
			d.Entries = append(d.Entries, absIng{mergeFoods[x.Choose(len(mergeFoods), "input:food")], q})
		}
		verify(x, bi, ri, c02Books[bi], absLog{d})
	})
}

// sameUpToShortening: got has the days, rows and numbers of want; names may be shortened to their column.
func sameUpToShortening(got, want []rDay) string {
	if len(got) != len(want) {
		return fmt.Sprintf("%d days, expected %d", len(got), len(want))
	}
	for di := range want {
		g, w := got[di], want[di]
		if g.Date != w.Date || len(g.Foods) != len(w.Foods) || len(g.Totals) != len(w.Totals) {
			return fmt.Sprintf("day %s: %d foods and %d total rows, expected day %s with %d and %d", g.Date, len(g.Foods), len(g.Totals), w.Date, len(w.Foods), len(w.Totals))
		}
		for fi := range w.Foods {
			gf, wf := g.Foods[fi], w.Foods[fi]
			if gf.Qty != wf.Qty || !shortenedOK(gf.Name, wf.Name, 27) || len(gf.Ings) != len(wf.Ings) {
				return fmt.Sprintf("day %s: food row %v, expected %v", w.Date, gf, wf)
			}
			for ii := range wf.Ings {
				if gf.Ings[ii].Val != wf.Ings[ii].Val || !shortenedOK(gf.Ings[ii].Name, wf.Ings[ii].Name, 20) {
					return fmt.Sprintf("day %s, food %s: ingredient row %v, expected %v", w.Date, wf.Name, gf.Ings[ii], wf.Ings[ii])
				}
			}
		}
		for ti := range w.Totals {
			gt, wt := g.Totals[ti], w.Totals[ti]
			if gt.Pos != wt.Pos || gt.Neg != wt.Neg || gt.Sum != wt.Sum || !shortenedOK(gt.Name, wt.Name, 20) {
				return fmt.Sprintf("day %s: total row %v, expected %v", w.Date, gt, wt)
			}
		}
	}
	return ""
}
