#!/bin/bash
# Regression of the seeded changes: for every /verif/seeded/<id>/ apply patch.diff to a scratch worktree of /repo (outside
# /repo and /verif), run the quick check of the property it breaks against that worktree, and expect a VIOLATION (exit 1).
# Not a registered command. Usage: ./selftest.sh [seed-id ...]
here="$(cd "$(dirname "$0")" && pwd)"
cd "$here"
seeds="$@"; [ -z "$seeds" ] && seeds=$(ls seeded)
ok=0; bad=0
for s in $seeds; do
  prop=$(python3 -c "import json;print(json.load(open('seeded/$s/meta.json'))['breaks_property'].split()[0])")
  wt=$(mktemp -d /tmp/selftest-XXXXXX); rmdir $wt
  git -C /repo worktree add -q --detach $wt HEAD || { echo "$s: cannot create worktree"; continue; }
  if ! git -C $wt apply "$here/seeded/$s/patch.diff"; then echo "$s: patch does not apply"; bad=$((bad+1)); git -C /repo worktree remove --force $wt; continue; fi
  out=$(VERIF_REPO=$wt ./check $prop quick 2>&1); code=$?
  nsig=$(echo "$out" | grep -c '^VIOLATION')
  if [ $code -eq 1 ] && [ $nsig -gt 0 ]; then echo "$s: caught by $prop ($nsig signatures)"; ok=$((ok+1)); else echo "$s: NOT CAUGHT by $prop (exit $code)"; echo "$out" | tail -3; bad=$((bad+1)); fi
  git -C /repo worktree remove --force $wt
done
git -C /repo worktree prune
echo "selftest: $ok caught, $bad not caught"
[ $bad -eq 0 ]
