#!/bin/bash
# Regression of the seeded changes: for every /verif/seeded/<id>/ apply patch.diff to a scratch worktree of /repo (outside
# /repo and /verif), run the quick check of the property it breaks against that worktree, and expect a VIOLATION (exit 1).
# Not a registered command. Usage: ./selftest.sh [seed-id ...]
here="$(cd "$(dirname "$0")" && pwd)"
cd "$here"
seeds="$@"; [ -z "$seeds" ] && seeds=$(ls seeded)
ok=0; bad=0
for s in $seeds; do
  prop=$(python3 -c "import json;print(json.load(open('seeded/$s/meta.json'))['breaks_property'].split()[0])")
  wt=$(mktemp -d /tmp/selftest-XXXXXX); rmdir $wt
  git -C /repo worktree add -q --detach $wt HEAD || { echo "$s: cannot create worktree"; continue; }
  if ! git -C $wt apply "$here/seeded/$s/patch.diff"; then echo "$s: patch does not apply"; bad=$((bad+1)); git -C /repo worktree remove --force $wt; continue; fi
  # fast path: only the exploration that caught this seed last time (recorded below); the full check when that misses
  only=$(python3 -c "import json;print(json.load(open('seeded/$s/meta.json')).get('caught_in_exploration',''))")
  code=0; nsig=0
  if [ -n "$only" ] && [ -z "$SELFTEST_FULL" ]; then
    out=$(VERIF_ONLY="$only" VERIF_REPO=$wt ./check $prop quick 2>&1); code=$?
    nsig=$(echo "$out" | grep -c '^VIOLATION')
  fi
  if [ $code -ne 1 ] || [ $nsig -eq 0 ]; then
    out=$(VERIF_REPO=$wt ./check $prop quick 2>&1); code=$?
    nsig=$(echo "$out" | grep -c '^VIOLATION')
  fi
  if [ $code -eq 1 ] && [ $nsig -gt 0 ]; then
    rp=$(echo "$out" | grep '^VIOLATION' | head -1 | sed 's/.*replay=//')
    python3 - "$s" "$rp" <<'PYEOF'
import json,sys
sid,rp=sys.argv[1],sys.argv[2]
try:
    ex=json.load(open(rp)).get('explore') or json.load(open(rp)).get('Explore')
    if ex:
        mp='seeded/%s/meta.json'%sid
        m=json.load(open(mp))
        if m.get('caught_in_exploration')!=ex:
            m['caught_in_exploration']=ex
            json.dump(m,open(mp,'w'),indent=1,ensure_ascii=False)
except Exception as e:
    pass
PYEOF
  fi
  if [ $code -eq 1 ] && [ $nsig -gt 0 ]; then echo "$s: caught by $prop ($nsig signatures)"; ok=$((ok+1)); else echo "$s: NOT CAUGHT by $prop (exit $code)"; echo "$out" | tail -3; bad=$((bad+1)); fi
  git -C /repo worktree remove --force $wt
done
git -C /repo worktree prune
echo "selftest: $ok caught, $bad not caught"
[ $bad -eq 0 ]
