package parser

// Free-running pass under the race detector (thorough tier of C18). The cooperative
// scheduler of the model-checking pass serialises the threads, which hides data races;
// here the same consumer loops run on the un-instrumented parser with real goroutines.
// Complementary to, not part of, the deciding exploration.

import (
	"fmt"
	shared "github.com/aquilax/hranoprovod-cli/v3"
	"io"
	"os"
	"runtime"
	"strings"
	"testing"
	"time"
)

type slowReader struct {
	r io.Reader
	n int
}

func (s *slowReader) Read(p []byte) (int, error) {
	s.n++
	if s.n%3 == 0 {
		runtime.Gosched()
	}
	if len(p) > 5 {
		p = p[:5]
	}
	return s.r.Read(p)
}

func TestVerifRace(t *testing.T) {
	if os.Getenv("VERIF_RACE") == "" {
		t.Skip("only under /verif/check C18 thorough")
	}
	inputs := []string{
		"", "a:\n  x: 1\n", "a:\n  x: 1\nb:\n  y: 2\n  z: 3\nc:\n",
		"a:\n  nosep\n  x: 1\nb:\n  q: abc\n", "a:\n  x: 1\n  q: abc\nb:\n  y: 1\n", "a:\n  x: 1\nb:\n  y: 2\n  nosep",
	}
	runs := 0
	// one pipeline: producer goroutine + consumer goroutine on a Parser of their own; on every third iteration the
	// consumer also uses the callback parser on another input between two receives
	pipe := func(in string, policy, it int) chan string {
		p := NewParser(NewDefaultConfig())
		go p.ParseStream(&slowReader{r: strings.NewReader(in)})
		done := make(chan string, 1)
		go func() {
			var sb strings.Builder
			for {
				select {
				case n := <-p.Nodes:
					sb.WriteString(n.Header)
					for _, e := range n.Elements {
						sb.WriteString(fmt.Sprint(e.Name, e.Value))
					}
					if n.Metadata != nil {
						sb.WriteString(fmt.Sprint(len(*n.Metadata)))
					}
					if it%2 == 0 {
						runtime.Gosched()
					}
					if it%3 == 0 {
						ParseStreamCallback(strings.NewReader("o:\n  p: 1\n  q\nr:\n  s: 2\n"), NewDefaultConfig(), func(*shared.ParserNode, error) (bool, error) { return false, nil })
					}
				case err := <-p.Errors:
					sb.WriteString(err.Error())
					if policy == 0 {
						done <- sb.String()
						return
					}
				case <-p.Done:
					done <- sb.String()
					return
				}
			}
		}()
		return done
	}
	for it := 0; it < 500; it++ {
		for ii, in := range inputs {
			for policy := 0; policy < 2; policy++ {
				// two pipelines at the same time (a program reading its book and its log concurrently)
				d1 := pipe(in, policy, it)
				d2 := pipe(inputs[(ii+1+it)%len(inputs)], policy, it+1)
				for _, d := range []chan string{d1, d2} {
					select {
					case <-d:
					case <-time.After(60 * time.Second):
						t.Fatalf("VERIF-RACE-HANG: consumer policy %d on %q did not finish in 60s", policy, in)
					}
					runs++
				}
			}
		}
	}
	fmt.Printf("VERIF-RACE-RUNS %d\n", runs)
}
