package parser

// Free-running pass under the race detector (thorough tier of C18). The cooperative
// scheduler of the model-checking pass serialises the threads, which hides data races;
// here the same consumer loops run on the un-instrumented parser with real goroutines.
// Complementary to, not part of, the deciding exploration.

import (
	"fmt"
	shared "github.com/aquilax/hranoprovod-cli/v3"
	"io"
	"os"
	"runtime"
	"strings"
	"testing"
	"time"
)

type slowReader struct {
	r io.Reader
	n int
}

func (s *slowReader) Read(p []byte) (int, error) {
	s.n++
	if s.n%3 == 0 {
		runtime.Gosched()
	}
	if len(p) > 5 {
		p = p[:5]
	}
	return s.r.Read(p)
}

func TestVerifRace(t *testing.T) {
	if os.Getenv("VERIF_RACE") == "" {
		t.Skip("only under /verif/check C18 thorough")
	}
	inputs := []string{
		"", "a:\n  x: 1\n", "a:\n  x: 1\nb:\n  y: 2\n  z: 3\nc:\n",
		"a:\n  nosep\n  x: 1\nb:\n  q: abc\n", "a:\n  x: 1\n  q: abc\nb:\n  y: 1\n", "a:\n  x: 1\nb:\n  y: 2\n  nosep",
	}
	// long inputs (beyond any batch a producer might collect: 300 and 1100 records, an error after the 300th), every
	// tenth iteration
	for _, n := range []int{300, 1100} {
		var sb strings.Builder
		for r := 1; r <= n; r++ {
			sb.WriteString(fmt.Sprintf("day%04d:\n  food%d: %d\n", r, r, r))
		}
		inputs = append(inputs, sb.String())
		if n == 300 {
			inputs = append(inputs, sb.String()+"last:\n  nosep\nafter:\n  x: 1\n")
		}
	}
	runs := 0
	seen := map[string]string{}
	// one pipeline: producer goroutine + consumer goroutine on a Parser of their own; on every third iteration the
	// consumer also uses the callback parser on another input between two receives
	pipe := func(in string, policy, it int) chan string {
		p := NewParser(NewDefaultConfig())
		go p.ParseStream(&slowReader{r: strings.NewReader(in)})
		done := make(chan string, 1)
		go func() {
			var sb strings.Builder
			for {
				select {
				case n := <-p.Nodes:
					sb.WriteString(n.Header)
					for _, e := range n.Elements {
						sb.WriteString(fmt.Sprint(e.Name, e.Value))
					}
					if n.Metadata != nil {
						sb.WriteString(fmt.Sprint(len(*n.Metadata)))
					}
					if it%2 == 0 {
						runtime.Gosched()
					}
					if it%3 == 0 {
						ParseStreamCallback(strings.NewReader("o:\n  p: 1\n  q\nr:\n  s: 2\n"), NewDefaultConfig(), func(*shared.ParserNode, error) (bool, error) { return false, nil })
					}
				case err := <-p.Errors:
					sb.WriteString(err.Error())
					if policy == 0 {
						done <- sb.String()
						return
					}
				case <-p.Done:
					done <- sb.String()
					return
				}
			}
		}()
		return done
	}
	for it := 0; it < 500; it++ {
		for ii, in := range inputs {
			for policy := 0; policy < 2; policy++ {
				// two pipelines at the same time (a program reading its book and its log concurrently)
				in2 := inputs[(ii+1+it)%len(inputs)]
				if (len(in) > 1000 || len(in2) > 1000) && it%10 != 0 {
					continue
				}
				d1 := pipe(in, policy, it)
				d2 := pipe(in2, policy, it+1)
				for di, d := range []chan string{d1, d2} {
					select {
					case got := <-d:
						// what the consumer saw is the same on every run
						key := fmt.Sprint(policy, "|", []string{in, in2}[di])
						if prev, ok := seen[key]; !ok {
							seen[key] = got
						} else if prev != got {
							t.Fatalf("VERIF-RACE-DIFF: consumer policy %d on an input of %d bytes saw %d bytes on one run and %d on another", policy, len([]string{in, in2}[di]), len(prev), len(got))
						}
					case <-time.After(60 * time.Second):
						t.Fatalf("VERIF-RACE-HANG: consumer policy %d on %q did not finish in 60s", policy, in)
					}
					runs++
				}
			}
		}
	}
	fmt.Printf("VERIF-RACE-RUNS %d\n", runs)
}
