#!/usr/bin/env python3
# Regenerates the table of DESIGN.md section 9.2 from evidence/*.json (quick tier as last run against /repo).
import json, re, glob
rows = []
for f in sorted(glob.glob('/verif/evidence/C*.json')):
    e = json.load(open(f))
    c = e['coverage']
    ex = ', '.join('%s (%s)' % (x['name'], format(x['executions'], ',')) for x in c.get('explorations', []))
    rows.append('| %s | %s | %s | %.0f s | %s |' % (e['property_id'], e['tier'], format(c.get('evaluations', 0), ','), e.get('wall_s', 0), ex))
table = '| ID | tier | executions | wall | explorations (executions) |\n|---|---|---|---|---|\n' + '\n'.join(rows) + '\n'
s = open('/verif/DESIGN.md').read()
m = re.search(r'(### 9\.2 [^\n]*\n\n)(?:.*?\n)?(\| ID \|.*?\n)(\n### 9\.3)', s, re.S)
assert m, 'section 9.2 table not found'
s = s[:m.start(2)] + table + s[m.start(3):]
open('/verif/DESIGN.md', 'w').write(s)
print(table)
