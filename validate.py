#!/opt/veriftools/pyvenv/bin/python
import json, jsonschema, sys, glob
m = json.load(open('/verif/MANIFEST.json'))
jsonschema.validate(m, json.load(open('/root/.vp/MANIFEST.schema.json')))
es = json.load(open('/root/.vp/EVIDENCE.schema.json'))
ids = [json.loads(l)['id'] for l in open('/verif/properties.jsonl')]
claimed = [c['property_id'] for c in m['checks']]
na = [c['property_id'] for c in m.get('not_applicable', [])]
for f in sorted(glob.glob('/verif/evidence/*.json')):
    jsonschema.validate(json.load(open(f)), es)
missing = [i for i in ids if i not in claimed and i not in na]
print('manifest ok; claimed', len(claimed), 'n/a', len(na), 'unaccounted', missing)
