#!/usr/bin/env python3
"""Regenerates MANIFEST.json from the table below (keeps it valid at all times)."""
import json
ALL = ["C%02d" % i for i in range(1, 19)]
FAULT = {"C10", "C17"}
CHECKS = {
 "C01": ("exhaustive enumeration of all acyclic recipe books within the bound (coefficients incl. 1, negative, fraction, zero) x namings x both entry points x every visiting order of every ranged map, wide recipes around the slice capacities 8/16/32, and the same books through files and two commands; compared with exact big.Rat path sums", "§4 C01; §9"),
 "C02": ("exhaustive enumeration of day shapes x 7 books (flat, empty recipe, nested, three levels in both visiting directions, mixed sign) x 4 renderers, merge shapes with power-of-two quantities, wide days, exotic names in every role, a large log; outputs parsed and compared with a reference register in exact rationals", "§4 C02; §9"),
 "C03": ("every subset of a 14-path universe (and a large tree with exotic segment names) x 3 display modes x {all foods, -s X over a nested book} x sign/order/two-day passes; conservation and mode equivalence checked exactly", "§4 C03; §9"),
 "C05": ("every permutation at every (pair of) dynamic visit(s) of every ranged map, chosen by the explorer through the overlay map-order seam, for 16 inputs x 26 command shapes; byte-identical output required", "§4 C05"),
 "C06": ("exhaustive product logs x (begin,end) x commands x flag position x time zone within the stated window; differential oracle against the same command on the physically restricted log", "§4 C06"),
 "C07": ("exhaustive enumeration of small books (three nesting levels, both visiting directions) x logs over 7 foods (path-prefix foods, exotic name, directly logged element) x periods, plus a large log; ~20 commands per input, relations checked in exact decimal arithmetic", "§4 C07; §9"),
 "C11": ("exhaustive enumeration of all ingredient graphs on 3 (quick) / 4 (thorough) recipes x depth limits x both entry points x every map visiting order, executed on the real resolver", "§4 C11"),
 "C12": ("all append histories up to depth 4 (quick) / 5 (thorough) over 10 day blocks (incl. exotic names and a 70-entry day) x 2 three-level books; concatenation law for 10 per-day commands (with and without a period) and element-wise-sum law for 6 period commands on every edge of the history tree", "§4 C12; §9"),
 "C15": ("full product of register presentation flags x all small logs over a book with empty recipes; record equality, per-day interleaving law, colour law, shortening law; balance display modes on all prefix-free subsets; --desc law", "§4 C15; §9"),
}
CHECKS.update({
 "C08": ("every token string up to 5 (6) tokens through the parser, every file of up to 2 (3) lines over 24 line shapes in every role through 50 command shapes, every subset of the boolean flags, unreadable inputs, cycles x depth limits up to 2e9; panics recovered and attributed, process deaths attributed through a journal, 120 s horizon per case", "§4 C08; §9"),
 "C18": ("every interleaving of the real producer (Parser.ParseStream / ParseFile; sends, selects, receives, go and close hooked by the overlay) and the documented consumers on a cooperative scheduler over modelled channels, with select-choice enumeration, arrival transitions around non-blocking selects and deadlock detection; model validated against real channels on every run; free-running -race pass in the thorough tier", "§4 C18; §9"),
 "C04": ("every abstract file within the bound under every layout departing from the README layout in at most 2 places, every name and number literal at every position, long files (up to 3000 records) and long lines (4090..65000 bytes in every line role); the real parser's exact callback sequence compared with the abstract file", "§4 C04; §9"),
 "C09": ("well-formed skeletons with k<=2 malformed lines planted at every position, in every role, through every file-reading command and lint; exact message, line number and order asserted", "§4 C09"),
 "C10": ("every byte offset at which the reader starts failing x delivery style x chunking, on the parser (small files and a 10 KB file around every 4096 boundary) and on 14 commands x period flags through the CmdUtils seam, strict form (the file cannot be read past byte k => error); directories and over-long lines on real files", "§4 C10; §9"),
 "C13": ("all pairs of exotic names x quantity literals through the three CSV exports; own RFC 4180 reader; row sets, order, names, ISO dates and half-unit accuracy against exact rationals", "§4 C13"),
 "C14": ("logs x 4 date formats x periods x layouts: print, print again (fixpoint), parse back, csv log of both", "§4 C14"),
 "C16": ("the product flag x env x config entry for the five settings x config location (quick: <= 3 sources set; thorough: full 2^14 product), differential against flags-only runs; explicit config existing/missing; --no-database", "§4 C16"),
 "C17": ("every byte offset at which the output sink starts failing (exhaustive for reports <= 700 bytes, stated sample above) x 22 command shapes x 3 inputs through the CmdUtils seam; real binary on /dev/full and a closed pipe", "§4 C17"),
})
NOTES = {
 "C08": "trusted: the alphabets; termination decided by a 120 s horizon (10^5 x normal cost); a worker death is attributed to the journaled case and reported as a violation",
 "C18": "trusted: the channel model in harness/sched.go (rendezvous, buffering, closed channels, select) - validated on every run against free runs on real channels; the consumer loops are copies of parser/example_test.go and TestParseWg expressed through the scheduler's Select",
 "C04": "trusted: generator/renderer in harness/gen.go; the well-formed grammar excludes names that begin or end with punctuation the tokenizer trims; -0 == 0",
 "C09": "trusted: generator knows physical line numbers; lint's exit status is not asserted; expected messages are built with the repository's own error constructors (format changes are not flagged, wrong line/number is)",
 "C10": "trusted: faultReader models io.Reader failure (error alone or with the last bytes, short reads); weak form of the property (success => complete); stats is covered only on real files (it opens files itself)",
 "C13": "trusted: own RFC 4180 reader in harness/parse.go; float64 representation slack of 2^-50 relative on the true value",
 "C14": "trusted: note texts are alphanumeric with inner blanks (documented forms); quantities compared at two decimals",
 "C16": "trusted: flags-only runs are the reference (flag handling itself is pinned by the other checks); default config path patched on the cli.App, real $HOME untouched; neither-source case of `today` compares two wall-clock runs",
 "C17": "trusted: faultWriter models a sink that accepts k bytes then fails with a short write; commands are built from the repository's exported constructors with the real root flags (the one-line Command() wrappers are covered only by the /dev/full and closed-pipe runs of the real binary)",
 "C01": "trusted: overlay map-order seam, big.Rat reference in harness/c01.go; dyadic coefficients so float sums are exact",
 "C02": "trusted: report parsers in harness/parse.go, reference register in harness/model.go; -0.00 and 0.00 are identified",
 "C03": "trusted: balance parser, prefix-sum reference; collapse modes asserted only on prefix-free food sets (as the property states)",
 "C05": "trusted: the overlay rewriter finds every range over a map (sites it cannot hook are listed in evidence); all n! orders for maps of <= 5 keys, a reported capped set above",
 "C06": "trusted: refFilter (integer day numbers); natural-language dates are outside the alphabet (they consult the wall clock)",
 "C07": "trusted: report parsers; quantities chosen so that every printed figure is exact at two decimals",
 "C11": "trusted: the map-order seam (overlay rewrite of range-over-map), the reference height function in harness/c11.go",
 "C12": "trusted: report parsers; blocks and books are a fixed alphabet, depth bounded",
 "C15": "trusted: report parsers; colour law checked on amounts with at most two decimals",
}
NOT_YET = "check not built yet in this session (work in progress; see DESIGN.md §4 for the planned model-checking design)"
m = {
 "version": 1,
 "setup_cmd": "cd /verif && mkdir -p bin && (cd driver && GOFLAGS= GOPROXY=off GOSUMDB=off GOTOOLCHAIN=local GOWORK=off go build -o ../bin/driver .) && (VERIF_DEADLINE_S=1 ./check C11 quick >/dev/null 2>&1; true) && (cd /repo/cmd/hranoprovod-cli && GOFLAGS= GOPROXY=off GOSUMDB=off GOTOOLCHAIN=local go build -race -o /dev/null . >/dev/null 2>&1; true)",
 "hooks": {
  "guard": "verif",
  "enable": "no source commits: instrumentation is generated at check time by /verif/driver (type-driven rewriter) into a `go test -c -tags verif -overlay` build of /repo's working tree",
  "baseline_off_cmd": "cd /repo && GOFLAGS= GOPROXY=off go test -vet=off -count=1 ./... && cd cmd/hranoprovod-cli && GOFLAGS= GOPROXY=off go test -vet=off -count=1 ./...",
  "source_commits": [],
  "add_only": True,
 },
 "engines": [
  {"name": "mc", "path": "harness/mc.go", "serves_properties": sorted(CHECKS),
   "kind_free_text": "stateless explorer written for this task: depth-first enumeration of all choice vectors by re-execution of the real code (inputs, layouts, map iteration orders, fault offsets, schedules are all Choose() points), deviation budgets per class, 16 process shards, determinism audit, replay files"},
  {"name": "rewriter", "path": "driver/rewrite.go", "serves_properties": sorted(CHECKS),
   "kind_free_text": "go/types-driven source rewriter producing a build overlay: map-order seam at every range over a map; in every package of both modules: channel seam (send, select, receive, range, go, close), package sync replaced by a cooperating stand-in (WaitGroup, Mutex, RWMutex), sync/atomic by one in which every operation is a scheduling point; per-package functions that re-initialise package-level variables"},
  {"name": "sched", "path": "harness/sched.go", "serves_properties": sorted(CHECKS),
   "kind_free_text": "cooperative scheduler over a model of Go channels, WaitGroups, mutexes and atomic operations: real goroutines run one at a time and park at these operations; transitions = enabled communications, select cases, arrivals, defaults, lock grants; the running thread is listed first, so a departure from the default is a preemption (bounded per exploration); deadlock detection; C18 drives the parser with it, every in-process application run of every check is its thread 'main' (one preemption by default, all schedules in C05)"},
  {"name": "apprace", "path": "driver/apprace.go", "serves_properties": ["C05", "C08"],
   "kind_free_text": "free-running pass of the un-instrumented program built with -race (complementary, not deciding): data-race reports, differing outcomes of identical runs, runs that do not end"},
  {"name": "faultio", "path": "harness/faultio.go", "serves_properties": ["C10", "C17"],
   "kind_free_text": "fault-injecting io.Reader / io.Writer behind the repository's own CmdUtils seam: fails from byte offset k, error alone or with the last bytes, short reads and short writes"},
 ],
 "checks": [],
 "not_applicable": [],
 "notes": "All checks: ./check <ID> quick|thorough rebuilds the instrumented harness and the plain binary from /repo's working tree, explores, writes evidence/<ID>.json; exit 0/1 per the interface, exit 2 = harness error. known_findings.json lists recorded and fixed defects.",
}
for pid in ALL:
    if pid in CHECKS:
        text, ref = CHECKS[pid]
        cat = "fault_enumeration" if pid in FAULT else "model_checking"
        m["checks"].append({
         "property_id": pid, "quick_cmd": "./check %s quick" % pid, "thorough_cmd": "./check %s thorough" % pid,
         "evidence_file": "evidence/%s.json" % pid, "replay_cmd_template": "./check %s quick --replay {path}" % pid,
         "engine": "mc", "level_claimed": {"category": cat, "text": text, "design_ref": "DESIGN.md " + ref},
         "level_note": NOTES[pid],
         "technique": "stateless model checking of the implementation: bounded-exhaustive enumeration of executions (inputs, environment answers, orders) by re-execution under a controlled chooser",
        })
    else:
        m["not_applicable"].append({"property_id": pid, "reason": NOT_YET})
json.dump(m, open("/verif/MANIFEST.json", "w"), indent=1)
print("wrote MANIFEST.json:", len(m["checks"]), "checks")
