#!/bin/bash
# usage: runall.sh [tier]   - every check against /repo, one line each: exit status, wall time, summary line
tier=${1:-quick}
cd /verif
bad=0
for i in 01 02 03 04 05 06 07 08 09 10 11 12 13 14 15 16 17 18; do
  s=$(date +%s)
  out=$(./check C$i $tier 2>&1); rc=$?
  e=$(( $(date +%s) - s ))
  line=$(echo "$out" | grep -E "^C$i $tier:" | tail -1 | cut -c1-170)
  echo "C$i exit=$rc ${e}s $line"
  if [ $rc -ne 0 ] || echo "$out" | grep -q "^VIOLATION\|HARNESS-"; then bad=1; echo "$out" | grep -E "^VIOLATION|HARNESS-|signature" | head -5 | cut -c1-300; fi
done
[ $bad -eq 0 ] && echo "ALL OK" || echo "SOMETHING NEEDS ATTENTION"
