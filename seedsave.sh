#!/bin/bash
# usage: seedsave.sh <worktree> <seed-id> <demo-script-relative>  - confirm a seeded change and store it under /verif/seeded/<seed-id>/
export GOFLAGS= GOPROXY=off GOSUMDB=off GOTOOLCHAIN=local
wt=$1; sid=$2; demo=$3
dst=/verif/seeded/$sid; mkdir -p $dst
cd $wt || exit 1
git diff > $dst/patch.diff
[ -s $dst/patch.diff ] || { echo "empty patch"; exit 1; }
(go test -vet=off -count=1 ./... && cd cmd/hranoprovod-cli && go test -vet=off -count=1 ./...) > $dst/.tests.log 2>&1; t=$?
(cd $wt && timeout 900 bash $demo) > $dst/.demo_with.log 2>&1; w=$?
# (no git stash: refs/stash is shared by all worktrees of a repository)
git apply -R $dst/patch.diff; (cd $wt && timeout 900 bash $demo) > $dst/.demo_without.log 2>&1; wo=$?; git apply $dst/patch.diff
rm -rf $dst/demo; cp -r _demo $dst/demo
echo "tests_with_change_exit=$t demo_with_change_exit=$w demo_without_change_exit=$wo"
tail -3 $dst/.demo_with.log | cut -c1-300
