#!/bin/bash
# usage: seedtest.sh <worktree> <ID> [tier]   - run /verif check <ID> against a scratch worktree holding a seeded change
wt=$1; id=$2; tier=${3:-quick}
cd /verif && VERIF_REPO=$wt ./check $id $tier 2>&1 | grep -E "^VIOLATION|signature|^C[0-9]+ |HARNESS|KNOWN" | head -12
echo "exit=${PIPESTATUS[0]}"
