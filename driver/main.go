package main

// /verif/check driver: rebuilds the instrumented harness from the repository's
// current working tree, runs the shards of one property check, merges their
// fragments, classifies violations against known_findings.json, writes
// evidence/<ID>.json and replay files, and exits 0 / 1 / 2.

import (
	"bytes"
	"crypto/sha1"
	"encoding/json"
	"fmt"
	"os"
	"os/exec"
	"path/filepath"
	"runtime"
	"sort"
	"strconv"
	"strings"
	"sync"
	"time"
)

type Violation struct {
	Sig           string                 `json:"sig"`
	Detail        string                 `json:"detail"`
	Explore       string                 `json:"explore"`
	Choices       []int                  `json:"choices"`
	Replay        map[string]interface{} `json:"replay,omitempty"`
	Unconfirmed   string                 `json:"unconfirmed,omitempty"`
	ConfirmedRuns int                    `json:"confirmed_on_real_binary_runs,omitempty"`
}

type ExploreStat struct {
	Name        string           `json:"name"`
	Executions  int64            `json:"executions"`
	States      int64            `json:"states"`
	Transitions int64            `json:"transitions"`
	MaxDepth    int              `json:"max_depth"`
	Budgets     map[string]int   `json:"deviation_budgets,omitempty"`
	Complete    bool             `json:"complete"`
	Classes     map[string]int64 `json:"choice_points_by_class,omitempty"`
}

type Fragment struct {
	Prop        string                 `json:"prop"`
	Shard       int                    `json:"shard"`
	Executions  int64                  `json:"executions"`
	States      int64                  `json:"states"`
	Transitions int64                  `json:"transitions"`
	MaxDepth    int                    `json:"max_depth"`
	Audits      int64                  `json:"determinism_audits"`
	Obs         []uint64               `json:"obs"`
	Cases       []uint64               `json:"cases"`
	Nontriv     []uint64               `json:"nontriv"`
	SetsCapped  bool                   `json:"sets_capped"`
	Samples     []interface{}          `json:"samples"`
	Violations  []Violation            `json:"violations"`
	ViolCount   map[string]int64       `json:"viol_count"`
	Notes       map[string]int64       `json:"notes"`
	Explores    []ExploreStat          `json:"explores"`
	TimedOut    bool                   `json:"timed_out"`
	Nondet      string                 `json:"nondeterminism,omitempty"`
	Info        map[string]interface{} `json:"info"`
	WallS       float64                `json:"wall_s"`
}

type Finding struct {
	Property    string `json:"property"`
	Key         string `json:"key"`
	Status      string `json:"status"` // known | fixed
	Description string `json:"description"`
	Commit      string `json:"commit,omitempty"`
}

type propMeta struct {
	Level            string
	Rule             string
	Assumptions      []string
	QuickS           float64 // internal deadline for exploration, seconds
	ThoroughS        float64
	NeedBin          bool
	Shards           int
	DeathIsViolation bool
	RacePass         bool
	AppRacePass      bool
}

func die(code int, format string, a ...interface{}) {
	fmt.Fprintf(os.Stderr, format+"\n", a...)
	os.Exit(code)
}

func goEnv(extra ...string) []string {
	env := []string{}
	for _, e := range os.Environ() {
		k := strings.SplitN(e, "=", 2)[0]
		switch k {
		case "GOFLAGS", "GOPROXY", "GOSUMDB", "GOTOOLCHAIN", "GOWORK", "HR_DATABASE", "HR_LOGFILE", "HR_CONFIG", "HR_DATE_FORMAT", "HR_MAXDEPTH", "TZ":
			continue
		}
		env = append(env, e)
	}
	env = append(env, "GOFLAGS=", "GOPROXY=off", "GOSUMDB=off", "GOTOOLCHAIN=local")
	return append(env, extra...)
}

func run(dir string, env []string, name string, args ...string) (string, error) {
	cmd := exec.Command(name, args...)
	cmd.Dir = dir
	cmd.Env = env
	var out bytes.Buffer
	cmd.Stdout = &out
	cmd.Stderr = &out
	err := cmd.Run()
	return out.String(), err
}

func main() {
	if len(os.Args) < 3 {
		die(2, "usage: check <ID> quick|thorough [--replay file] [--keep]")
	}
	id, tier := os.Args[1], os.Args[2]
	replayFile := ""
	for i := 3; i < len(os.Args); i++ {
		if os.Args[i] == "--replay" && i+1 < len(os.Args) {
			replayFile = os.Args[i+1]
			i++
		}
	}
	if tier == "--replay" {
		die(2, "usage: check <ID> quick|thorough [--replay file]")
	}
	meta, ok := props[id]
	if !ok {
		die(2, "unknown property %s", id)
	}
	verif := os.Getenv("VERIF_DIR")
	if verif == "" {
		verif = "/verif"
	}
	repo := os.Getenv("VERIF_REPO")
	if repo == "" {
		repo = "/repo"
	}
	// runs against a scratch copy (seeded-change self-tests) never touch the committed evidence
	outRoot := verif
	if repo != "/repo" {
		outRoot = filepath.Join(verif, "scratch")
	}
	seed := int64(0)
	if s := os.Getenv("VERIF_SEED"); s != "" {
		seed, _ = strconv.ParseInt(s, 10, 64)
	}
	start := time.Now()
	tmpRoot := os.Getenv("TMPDIR")
	if tmpRoot == "" {
		tmpRoot = "/tmp"
		if st, err := os.Stat("/dev/shm"); err == nil && st.IsDir() {
			if f, err := os.CreateTemp("/dev/shm", "verif-probe-"); err == nil {
				f.Close()
				os.Remove(f.Name())
				tmpRoot = "/dev/shm" // tmpfs: the per-execution input files never touch the disk
			}
		}
	}
	// scratch directories of runs that were killed before they could clean up (older than any run can last)
	if old, _ := filepath.Glob(filepath.Join(tmpRoot, "verif-C[0-9][0-9]-*")); len(old) > 0 {
		for _, d := range old {
			if fi, err := os.Stat(d); err == nil && fi.IsDir() && time.Since(fi.ModTime()) > 4*time.Hour {
				os.RemoveAll(d)
			}
		}
	}
	bdir, err := os.MkdirTemp(tmpRoot, "verif-"+id+"-")
	if err != nil {
		die(2, "mktemp: %v", err)
	}
	defer os.RemoveAll(bdir)
	cleanup := func() { os.RemoveAll(bdir) }

	ofile, rst, err := buildOverlay(repo, verif, bdir)
	if err != nil {
		cleanup()
		die(2, "HARNESS-ERROR: rewriter: %v", err)
	}
	cmdDir := filepath.Join(repo, "cmd", "hranoprovod-cli")
	hbin := filepath.Join(bdir, "harness.test")
	var wg sync.WaitGroup
	var buildOut, binOut string
	var buildErr, binErr error
	wg.Add(1)
	go func() {
		defer wg.Done()
		buildOut, buildErr = run(cmdDir, goEnv(), "go", "test", "-c", "-vet=off", "-tags", "verif", "-overlay", ofile, "-o", hbin, ".")
	}()
	plain := ""
	if meta.NeedBin {
		plain = filepath.Join(bdir, "hr")
		wg.Add(1)
		go func() {
			defer wg.Done()
			binOut, binErr = run(cmdDir, goEnv(), "go", "build", "-o", plain, ".")
		}()
	}
	wg.Wait()
	if buildErr != nil {
		cleanup()
		die(2, "HARNESS-ERROR: building instrumented harness failed:\n%s", buildOut)
	}
	if binErr != nil {
		cleanup()
		die(2, "HARNESS-ERROR: building plain binary failed:\n%s", binOut)
	}
	buildS := time.Since(start).Seconds()

	nshards := meta.Shards
	if nshards == 0 {
		nshards = runtime.NumCPU()
		if nshards > 16 {
			nshards = 16
		}
	}
	if s := os.Getenv("VERIF_SHARDS"); s != "" {
		nshards, _ = strconv.Atoi(s)
	}
	if replayFile != "" {
		nshards = 1
	}
	deadline := meta.QuickS
	if tier == "thorough" {
		deadline = meta.ThoroughS
	}
	if s := os.Getenv("VERIF_DEADLINE_S"); s != "" {
		deadline, _ = strconv.ParseFloat(s, 64)
	}
	frags := make([]*Fragment, nshards)
	errs := make([]string, nshards)
	codes := make([]int, nshards)
	for i := 0; i < nshards; i++ {
		wg.Add(1)
		go func(i int) {
			defer wg.Done()
			wdir := filepath.Join(bdir, fmt.Sprintf("w%d", i))
			os.MkdirAll(wdir, 0o755)
			out := filepath.Join(bdir, fmt.Sprintf("frag%d.json", i))
			env := goEnv("VERIF_PROP="+id, "VERIF_TIER="+tier, fmt.Sprintf("VERIF_SHARD=%d/%d", i, nshards),
				fmt.Sprintf("VERIF_SEED=%d", seed), "VERIF_OUT="+out, "VERIF_TMP="+wdir, "VERIF_BIN="+plain,
				fmt.Sprintf("VERIF_DEADLINE_S=%g", deadline), "GOMAXPROCS=2", "VERIF_ONLY="+os.Getenv("VERIF_ONLY"), "VERIF_C05_INPUT="+os.Getenv("VERIF_C05_INPUT"), "VERIF_MEMDEBUG="+os.Getenv("VERIF_MEMDEBUG"), "HOME="+wdir, "VERIF_REPO_DIR="+repo)
			if replayFile != "" {
				abs, _ := filepath.Abs(replayFile)
				env = append(env, "VERIF_REPLAY="+abs)
			}
			shell := fmt.Sprintf("ulimit -v %d; exec %s -test.run '^TestVerifWorker$' -test.timeout 0", 8*1024*1024, hbin)
			cmd := exec.Command("bash", "-c", shell)
			cmd.Dir = wdir
			cmd.Env = env
			var eb bytes.Buffer
			cmd.Stdout = &eb
			cmd.Stderr = &eb
			err := cmd.Run()
			if err != nil {
				codes[i] = 1
				if ee, ok := err.(*exec.ExitError); ok {
					codes[i] = ee.ExitCode()
				}
				errs[i] = tail(eb.String(), 4000)
				return
			}
			b, err := os.ReadFile(out)
			if err != nil {
				codes[i] = 2
				errs[i] = "no fragment written: " + tail(eb.String(), 2000)
				return
			}
			var fr Fragment
			if err := json.Unmarshal(b, &fr); err != nil {
				codes[i] = 2
				errs[i] = "bad fragment: " + err.Error()
				return
			}
			frags[i] = &fr
		}(i)
	}
	wg.Wait()
	var deaths []Violation
	for i := range frags {
		if frags[i] == nil {
			// a worker that died of a fatal runtime error while a journaled case was running: for
			// properties about crashes that is a finding, not a harness fault
			jb, jerr := os.ReadFile(filepath.Join(bdir, fmt.Sprintf("w%d", i), "journal.json"))
			var jv Violation
			if meta.DeathIsViolation && !strings.Contains(errs[i], "HARNESS-") && jerr == nil && json.Unmarshal(jb, &jv) == nil && replayFile == "" {
				jv.Sig += "|process-died"
				jv.Detail += fmt.Sprintf("\nthe process died (exit %d):\n%s", codes[i], tail(errs[i], 1200))
				deaths = append(deaths, jv)
				frags[i] = &Fragment{Prop: id, Shard: i, ViolCount: map[string]int64{}, Notes: map[string]int64{"workers_died": 1}, TimedOut: true}
				continue
			}
			if replayFile != "" && meta.DeathIsViolation && !strings.Contains(errs[i], "HARNESS-") {
				fmt.Printf("replayed 1 execution of %s: the process died (exit %d)\n%s\n", id, codes[i], tail(errs[i], 1500))
				cleanup()
				os.Exit(1)
			}
			cleanup()
			die(2, "HARNESS-ERROR: worker %d of %s failed (exit %d):\n%s", i, id, codes[i], errs[i])
		}
	}
	for _, dv := range deaths {
		frags[0].ViolCount[dv.Sig]++
		frags[0].Violations = append(frags[0].Violations, dv)
	}

	// merge
	var execs, states, trans, audits int64
	maxDepth := 0
	obs, cases, nontriv := map[uint64]struct{}{}, map[uint64]struct{}{}, map[uint64]struct{}{}
	var samples []interface{}
	violCount := map[string]int64{}
	var viols []Violation
	notes := map[string]int64{}
	timedOut, capped := false, false
	exploreAgg := map[string]*ExploreStat{}
	var exploreOrder []string
	info := map[string]interface{}{}
	for _, fr := range frags {
		execs += fr.Executions
		states += fr.States
		trans += fr.Transitions
		audits += fr.Audits
		if fr.MaxDepth > maxDepth {
			maxDepth = fr.MaxDepth
		}
		for _, h := range fr.Obs {
			obs[h] = struct{}{}
		}
		for _, h := range fr.Cases {
			cases[h] = struct{}{}
		}
		for _, h := range fr.Nontriv {
			nontriv[h] = struct{}{}
		}
		for _, s := range fr.Samples {
			if len(samples) < 6 {
				samples = append(samples, shrink(s, 1500))
			}
		}
		for k, v := range fr.ViolCount {
			violCount[k] += v
		}
		viols = append(viols, fr.Violations...)
		for k, v := range fr.Notes {
			notes[k] += v
		}
		timedOut = timedOut || fr.TimedOut
		capped = capped || fr.SetsCapped
		for _, e := range fr.Explores {
			a := exploreAgg[e.Name]
			if a == nil {
				c := e
				c.Classes = map[string]int64{}
				for k, v := range e.Classes {
					c.Classes[k] = v
				}
				exploreAgg[e.Name] = &c
				exploreOrder = append(exploreOrder, e.Name)
				continue
			}
			a.Executions += e.Executions
			a.States += e.States
			a.Transitions += e.Transitions
			if e.MaxDepth > a.MaxDepth {
				a.MaxDepth = e.MaxDepth
			}
			a.Complete = a.Complete && e.Complete
			for k, v := range e.Classes {
				a.Classes[k] += v
			}
		}
		for k, v := range fr.Info {
			info[k] = v
		}
	}
	var explores []ExploreStat
	for _, n := range exploreOrder {
		explores = append(explores, *exploreAgg[n])
	}

	// thorough tier of C18: free-running pass of the same consumers on the un-instrumented parser under -race
	raceInfo := map[string]interface{}{}
	if meta.RacePass && tier == "thorough" && replayFile == "" {
		rov := filepath.Join(bdir, "race-overlay.json")
		rb, _ := json.Marshal(map[string]interface{}{"Replace": map[string]string{filepath.Join(repo, "parser", "zzverif_race_test.go"): filepath.Join(verif, "harness_race", "race_test.go")}})
		os.WriteFile(rov, rb, 0o644)
		t0 := time.Now()
		out, err := run(repo, goEnv("VERIF_RACE=1"), "go", "test", "-race", "-v", "-vet=off", "-count=1", "-timeout", "20m", "-run", "^TestVerifRace$", "-overlay", rov, "./parser")
		raceInfo["wall_s"] = time.Since(t0).Seconds()
		raceInfo["data_races_reported"] = strings.Count(out, "WARNING: DATA RACE")
		if i := strings.Index(out, "VERIF-RACE-RUNS "); i >= 0 {
			fmt.Sscanf(out[i:], "VERIF-RACE-RUNS %d", new(int))
			var n int
			fmt.Sscanf(out[i:], "VERIF-RACE-RUNS %d", &n)
			raceInfo["free_runs"] = n
		}
		switch {
		case strings.Contains(out, "WARNING: DATA RACE"):
			v := Violation{Sig: id + "|data-race|free-running-race-detector", Detail: "go test -race on the un-instrumented parser with the documented consumer loops reports a data race:\n" + tail(out, 3000)}
			violCount[v.Sig]++
			viols = append(viols, v)
		case strings.Contains(out, "VERIF-RACE-DIFF"):
			v := Violation{Sig: id + "|free-running-consumer-sees-different-things", Detail: tail(out, 2000)}
			violCount[v.Sig]++
			viols = append(viols, v)
		case strings.Contains(out, "VERIF-RACE-HANG"):
			v := Violation{Sig: id + "|free-running-consumer-hangs", Detail: tail(out, 2000)}
			violCount[v.Sig]++
			viols = append(viols, v)
		case err != nil:
			cleanup()
			die(2, "HARNESS-ERROR: race pass failed to run:\n%s", tail(out, 3000))
		}
	}
	// C05, C08: free-running pass of the real program built with the race detector (see apprace.go)
	if meta.AppRacePass && replayFile == "" {
		ri, rv := appRacePass(id, repo, bdir)
		raceInfo = ri
		if e, bad := ri["error"]; bad {
			cleanup()
			die(2, "HARNESS-ERROR: %v", e)
		}
		for _, v := range rv {
			if id == "C08" && !strings.Contains(v.Sig, "does-not-terminate") {
				continue // data races and differing outcomes are C05's business
			}
			violCount[v.Sig]++
			viols = append(viols, v)
		}
	}
	// classify violations
	findings := loadFindings(filepath.Join(verif, "known_findings.json"))
	known := map[string]Finding{}
	for _, f := range findings {
		if f.Property == id && f.Status == "known" {
			known[f.Key] = f
		}
	}
	sigs := []string{}
	for s := range violCount {
		sigs = append(sigs, s)
	}
	sort.Strings(sigs)
	exit := 0
	firstBySig := map[string]Violation{}
	sort.SliceStable(viols, func(i, j int) bool { return len(viols[i].Choices) < len(viols[j].Choices) })
	// prefer an example that the real binary confirmed
	sort.SliceStable(viols, func(i, j int) bool { return viols[i].Unconfirmed == "" && viols[j].Unconfirmed != "" })
	for _, v := range viols {
		if _, ok := firstBySig[v.Sig]; !ok {
			firstBySig[v.Sig] = v
		}
	}
	nondet := ""
	for _, fr := range frags {
		if fr.Nondet != "" && nondet == "" {
			nondet = fr.Nondet
		}
	}
	inconsistent := 0
	unlisted := 0
	knownHit := 0
	if replayFile == "" {
		os.RemoveAll(filepath.Join(outRoot, "replay", id))
	}
	for _, s := range sigs {
		v := firstBySig[s]
		if f, ok := known[s]; ok {
			fmt.Printf("KNOWN-FINDING: property=%s %s (%s; %d occurrences in this run)\n", id, s, f.Description, violCount[s])
			knownHit++
			continue
		}
		if v.Unconfirmed != "" {
			// the un-instrumented binary does not reproduce what the in-process run observed:
			// the harness (not the repository) is at fault, nothing is reported as a violation
			inconsistent++
			fmt.Fprintf(os.Stderr, "HARNESS-INCONSISTENCY: %s signature %s not confirmed by the real binary: %s\n", id, s, tail(v.Unconfirmed, 1200))
			continue
		}
		unlisted++
		exit = 1
		rdir := filepath.Join(outRoot, "replay", id)
		os.MkdirAll(rdir, 0o755)
		h := sha1.Sum([]byte(s))
		rp := filepath.Join(rdir, fmt.Sprintf("%x.json", h[:6]))
		vb, _ := json.MarshalIndent(v, "", " ")
		os.WriteFile(rp, vb, 0o644)
		fmt.Printf("VIOLATION property=%s replay=%s\n", id, rp)
		fmt.Printf("  signature: %s  (%d occurrences)\n  %s\n", s, violCount[s], strings.ReplaceAll(tail(v.Detail, 1500), "\n", "\n  "))
	}

	if nondet != "" {
		fmt.Fprintf(os.Stderr, "HARNESS-NONDETERMINISM: %s\n", tail(nondet, 2000))
	}
	if exit == 0 && (inconsistent > 0 || nondet != "") {
		exit = 2
	}
	exhaustive := !timedOut
	for _, e := range explores {
		if !e.Complete {
			exhaustive = false
		}
	}
	if v, ok := info["capped"]; ok {
		if b, ok := v.(bool); ok && b {
			exhaustive = false
		}
	}
	if replayFile != "" {
		fmt.Printf("replayed 1 execution of %s: %d violation signature(s)\n", id, len(sigs))
		cleanup()
		os.Exit(exit)
	}
	if len(samples) == 0 {
		samples = append(samples, "no sample recorded")
	}
	cov := map[string]interface{}{
		"evaluations":                   execs,
		"distinct_nontrivial":           len(nontriv),
		"distinct_cases":                len(cases),
		"distinct_observations":         len(obs),
		"rule":                          meta.Rule,
		"samples":                       samples,
		"states":                        states,
		"transitions":                   trans,
		"traces_validated_against_impl": execs,
		"max_depth":                     maxDepth,
		"exhaustive":                    exhaustive,
		"timed_out":                     timedOut,
		"hash_sets_capped":              capped,
		"determinism_audits":            audits,
		"explorations":                  explores,
		"counters":                      notes,
		"shards":                        nshards,
		"map_sites_hooked":              rst.MapSitesHooked,
		"unhooked_map_sites":            rst.MapSitesUnhooked,
		"chan_sends_hooked":             rst.ChanSendsHooked,
		"chan_ops_unhooked":             rst.ChanOpsUnhooked,
		"sync_imports_rewritten":        rst.SyncImportsRewritten,
		"stdout_sinks_hooked":           rst.StdoutSinksHooked,
		"package_vars_reset":            rst.PkgVarsReset,
		"package_vars_not_reset":        rst.PkgVarsNotReset,
		"violation_signatures":          violCount,
		"known_findings_hit":            knownHit,
		"race_pass":                     raceInfo,
		"unconfirmed_signatures":        inconsistent,
		"build_s":                       buildS,
		"explanation":                   "every execution is a run of the implementation built from the repository's current working tree (instrumented via go build -overlay); states/transitions are nodes/edges of the explored choice tree",
	}
	for k, v := range info {
		if _, exists := cov[k]; !exists {
			cov[k] = v
		}
	}
	ev := map[string]interface{}{
		"property_id": id,
		"tier":        tier,
		"seed":        seed,
		"level":       meta.Level,
		"coverage":    cov,
		"assumptions": meta.Assumptions,
		"wall_s":      time.Since(start).Seconds(),
		"violations":  unlisted,
	}
	eb, _ := json.MarshalIndent(ev, "", " ")
	os.MkdirAll(filepath.Join(outRoot, "evidence"), 0o755)
	if err := os.WriteFile(filepath.Join(outRoot, "evidence", id+".json"), eb, 0o644); err != nil {
		cleanup()
		die(2, "HARNESS-ERROR: cannot write evidence: %v", err)
	}
	fmt.Printf("%s %s: executions=%d states=%d transitions=%d distinct_obs=%d nontrivial_cases=%d exhaustive=%v violations(unlisted)=%d known=%d wall=%.1fs (build %.1fs)\n",
		id, tier, execs, states, trans, len(obs), len(nontriv), exhaustive, unlisted, knownHit, time.Since(start).Seconds(), buildS)
	cleanup()
	os.Exit(exit)
}

func tail(s string, n int) string {
	if len(s) <= n {
		return s
	}
	return s[:n/2] + "\n...\n" + s[len(s)-n/2:]
}

func loadFindings(path string) []Finding {
	b, err := os.ReadFile(path)
	if err != nil {
		return nil
	}
	var doc struct {
		Findings []Finding `json:"findings"`
	}
	if err := json.Unmarshal(b, &doc); err != nil {
		die(2, "HARNESS-ERROR: known_findings.json: %v", err)
	}
	return doc.Findings
}

// shrink keeps evidence files small: every string longer than max inside v is cut to its head and tail.
func shrink(v interface{}, max int) interface{} {
	switch t := v.(type) {
	case string:
		if len(t) > max {
			return t[:max/2] + fmt.Sprintf(" ...[%d bytes cut]... ", len(t)-max) + t[len(t)-max/2:]
		}
		return t
	case []interface{}:
		out := make([]interface{}, len(t))
		for i := range t {
			out[i] = shrink(t[i], max)
		}
		return out
	case map[string]interface{}:
		out := make(map[string]interface{}, len(t))
		for k, e := range t {
			out[k] = shrink(e, max)
		}
		return out
	}
	return v
}
