package main

// Type-driven source rewriter. It reads the CURRENT working tree of both
// modules of the repository and produces rewritten copies of the files that
// contain (a) a range over a map with string keys, (b) a channel send in
// package parser. The copies plus the harness and the shim are wired into an
// overlay.json for `go test -c -overlay`. /repo itself is never written.
//
// Edits are textual at token positions (like `go tool cover`), so line
// numbers of the original files are preserved.

import (
	"bytes"
	"encoding/json"
	"fmt"
	"go/ast"
	"go/importer"
	"go/parser"
	"go/token"
	"go/types"
	"os"
	"path/filepath"
	"sort"
	"strings"
)

const shimImportPath = "github.com/aquilax/hranoprovod-cli/v3/verifshim"

type srcPkg struct {
	path  string
	dir   string
	files []*ast.File
	names []string
	tpkg  *types.Package
	info  *types.Info
	busy  bool
}

type loader struct {
	fset   *token.FileSet
	pkgs   map[string]*srcPkg
	std    types.Importer
	fake   map[string]*types.Package
	stdErr map[string]bool
}

func (l *loader) Import(path string) (*types.Package, error) {
	if p, ok := l.pkgs[path]; ok {
		if p.tpkg == nil {
			if p.busy {
				return nil, fmt.Errorf("import cycle at %s", path)
			}
			l.check(p)
		}
		return p.tpkg, nil
	}
	if path == "unsafe" {
		return types.Unsafe, nil
	}
	if !strings.Contains(strings.Split(path, "/")[0], ".") {
		if !l.stdErr[path] {
			if tp, err := l.std.Import(path); err == nil {
				return tp, nil
			}
			l.stdErr[path] = true
		}
	}
	if fp, ok := l.fake[path]; ok {
		return fp, nil
	}
	name := path[strings.LastIndex(path, "/")+1:]
	if strings.HasPrefix(name, "v") && len(name) <= 3 { // .../cli/v2
		parts := strings.Split(path, "/")
		if len(parts) >= 2 {
			name = parts[len(parts)-2]
		}
	}
	name = strings.TrimSuffix(strings.TrimPrefix(name, "go-"), ".v1")
	fp := types.NewPackage(path, name)
	fp.MarkComplete()
	l.fake[path] = fp
	return fp, nil
}

func (l *loader) check(p *srcPkg) {
	p.busy = true
	defer func() { p.busy = false }()
	p.info = &types.Info{Types: map[ast.Expr]types.TypeAndValue{}, Defs: map[*ast.Ident]types.Object{}, Uses: map[*ast.Ident]types.Object{}}
	conf := types.Config{Importer: l, Error: func(error) {}, FakeImportC: true}
	name := "p"
	if len(p.files) > 0 {
		name = p.files[0].Name.Name
	}
	_ = name
	tp, _ := conf.Check(p.path, l.fset, p.files, p.info)
	p.tpkg = tp
}

type rewriteStats struct {
	MapSitesHooked   []string `json:"map_sites_hooked"`
	MapSitesUnhooked []string `json:"map_sites_unhooked"`
	ChanSendsHooked  []string `json:"chan_sends_hooked"`
	ChanOpsUnhooked  []string `json:"chan_ops_unhooked"`
	// package-level variables of the repository: re-initialised before every in-process application run / left alone
	StdoutSinksHooked    []string `json:"stdout_sinks_hooked"`
	SyncImportsRewritten []string `json:"sync_imports_rewritten"`
	PkgVarsReset         []string `json:"package_vars_reset"`
	PkgVarsNotReset      []string `json:"package_vars_not_reset"`
}

type edit struct {
	start, end int
	text       string
}

func moduleOf(dir string) (string, error) {
	b, err := os.ReadFile(filepath.Join(dir, "go.mod"))
	if err != nil {
		return "", err
	}
	for _, ln := range strings.Split(string(b), "\n") {
		ln = strings.TrimSpace(ln)
		if strings.HasPrefix(ln, "module ") {
			return strings.TrimSpace(strings.TrimPrefix(ln, "module ")), nil
		}
	}
	return "", fmt.Errorf("no module line in %s/go.mod", dir)
}

// buildOverlay rewrites the tree under repo and writes overlay.json into out.
func buildOverlay(repo, verif, out string) (string, *rewriteStats, error) {
	st := &rewriteStats{}
	l := &loader{fset: token.NewFileSet(), pkgs: map[string]*srcPkg{}, fake: map[string]*types.Package{}, stdErr: map[string]bool{}}
	l.std = importer.ForCompiler(l.fset, "source", nil)
	mods := []string{repo, filepath.Join(repo, "cmd", "hranoprovod-cli")}
	for mi, mdir := range mods {
		mpath, err := moduleOf(mdir)
		if err != nil {
			return "", nil, err
		}
		err = filepath.Walk(mdir, func(p string, fi os.FileInfo, err error) error {
			if err != nil {
				return err
			}
			if fi.IsDir() {
				b := filepath.Base(p)
				if p != mdir && (strings.HasPrefix(b, ".") || b == "testdata" || b == "vendor" || b == "node_modules") {
					return filepath.SkipDir
				}
				if mi == 0 && p == mods[1] {
					return filepath.SkipDir
				}
				if p != mdir {
					if _, e := os.Stat(filepath.Join(p, "go.mod")); e == nil {
						return filepath.SkipDir
					}
				}
				return nil
			}
			if !strings.HasSuffix(p, ".go") || strings.HasSuffix(p, "_test.go") {
				return nil
			}
			dir := filepath.Dir(p)
			rel, _ := filepath.Rel(mdir, dir)
			ip := mpath
			if rel != "." {
				ip = mpath + "/" + filepath.ToSlash(rel)
			}
			f, perr := parser.ParseFile(l.fset, p, nil, parser.ParseComments)
			if perr != nil {
				return fmt.Errorf("parse %s: %v", p, perr)
			}
			sp := l.pkgs[ip]
			if sp == nil {
				sp = &srcPkg{path: ip, dir: dir}
				l.pkgs[ip] = sp
			}
			sp.files = append(sp.files, f)
			sp.names = append(sp.names, p)
			return nil
		})
		if err != nil {
			return "", nil, err
		}
	}
	var paths []string
	for ip := range l.pkgs {
		paths = append(paths, ip)
	}
	sort.Strings(paths)
	overlay := map[string]string{}
	rwdir := filepath.Join(out, "rw")
	for _, ip := range paths {
		p := l.pkgs[ip]
		if p.tpkg == nil {
			l.check(p)
		}
		plan := planResets(l.fset, repo, p, st)
		for fi, f := range p.files {
			fname := p.names[fi]
			src, err := os.ReadFile(fname)
			if err != nil {
				return "", nil, err
			}
			var edits []edit
			off := func(pos token.Pos) int { return l.fset.Position(pos).Offset }
			site := func(pos token.Pos) string {
				ps := l.fset.Position(pos)
				rel, _ := filepath.Rel(repo, ps.Filename)
				return fmt.Sprintf("%s:%d", filepath.ToSlash(rel), ps.Line)
			}
			// channel seam state for this file (package parser only)
			inSelect := map[ast.Node]bool{}
			helperIdx := map[string]int{}
			var helperTypes []string
			var helperLocal []bool
			qual := func(tp *types.Package) string {
				if tp == p.tpkg {
					return ""
				}
				for _, im := range f.Imports {
					ipath := strings.Trim(im.Path.Value, "\"")
					if ipath == tp.Path() {
						if im.Name != nil {
							return im.Name.Name
						}
						return tp.Name()
					}
				}
				return tp.Name()
			}
			helperFor := func(chExpr ast.Expr) (int, bool) {
				tv, ok := p.info.Types[chExpr]
				if !ok || tv.Type == nil {
					return 0, false
				}
				ct, isChan := tv.Type.Underlying().(*types.Chan)
				if !isChan {
					return 0, false
				}
				ts := types.TypeString(ct.Elem(), qual)
				if i, ok := helperIdx[ts]; ok {
					return i, true
				}
				helperIdx[ts] = len(helperTypes)
				helperTypes = append(helperTypes, ts)
				helperLocal = append(helperLocal, mentionsLocalType(ct.Elem(), p.tpkg))
				return len(helperTypes) - 1, true
			}
			// the element type of a channel may be declared inside a function: no file-level helper can name it, the
			// conversion is written out where the operation stands
			recv1 := func(hi int, x string) string {
				if helperLocal[hi] {
					t := helperTypes[hi]
					return fmt.Sprintf("func(ch interface{}) %s { v, _ := verifshim.Recv(ch); r, _ := v.(%s); return r }(%s)", t, t, x)
				}
				return fmt.Sprintf("verifRecv1_%d(%s)", hi, x)
			}
			recv2 := func(hi int, x string) string {
				if helperLocal[hi] {
					t := helperTypes[hi]
					return fmt.Sprintf("func(ch interface{}) (%s, bool) { v, ok := verifshim.Recv(ch); r, _ := v.(%s); return r, ok }(%s)", t, t, x)
				}
				return fmt.Sprintf("verifRecv2_%d(%s)", hi, x)
			}
			valOf := func(hi int, e string) string {
				if helperLocal[hi] {
					t := helperTypes[hi]
					return fmt.Sprintf("func(v interface{}) %s { r, _ := v.(%s); return r }(%s)", t, t, e)
				}
				return fmt.Sprintf("verifVal_%d(%s)", hi, e)
			}
			text := func(e ast.Node) string { return string(src[off(e.Pos()):off(e.End())]) }
			// os.Stdout where an io.Writer (any interface) is expected - the Output of a configuration, an argument of
			// Fprint - becomes a writer that performs the same write on os.Stdout after telling the scheduler: a write
			// to a terminal or pipe is where a goroutine is parked while the others run
			isStdout := func(e ast.Expr) bool {
				sel, ok := e.(*ast.SelectorExpr)
				if !ok || sel.Sel.Name != "Stdout" {
					return false
				}
				id, ok := sel.X.(*ast.Ident)
				if !ok {
					return false
				}
				pn, ok := p.info.Uses[id].(*types.PkgName)
				return ok && pn.Imported().Path() == "os"
			}
			isIface := func(t types.Type) bool {
				if t == nil {
					return false
				}
				_, ok := t.Underlying().(*types.Interface)
				return ok
			}
			keepOS := ""
			hookStdout := func(e ast.Expr) {
				keepOS = text(e) // (the import of os may have no other use in this file)
				edits = append(edits, edit{off(e.Pos()), off(e.End()), "verifshim.StdoutWriter()"})
				st.StdoutSinksHooked = append(st.StdoutSinksHooked, site(e.Pos()))
			}
			ast.Inspect(f, func(n ast.Node) bool {
				switch s := n.(type) {
				case *ast.CompositeLit:
					tv, ok := p.info.Types[s]
					if !ok || tv.Type == nil {
						return true
					}
					stt, isStruct := tv.Type.Underlying().(*types.Struct)
					for i, el := range s.Elts {
						if kv, isKV := el.(*ast.KeyValueExpr); isKV {
							if !isStdout(kv.Value) {
								continue
							}
							if isStruct {
								if key, ok := kv.Key.(*ast.Ident); ok {
									for fi := 0; fi < stt.NumFields(); fi++ {
										if stt.Field(fi).Name() == key.Name && isIface(stt.Field(fi).Type()) {
											hookStdout(kv.Value)
										}
									}
								}
							}
						} else if isStruct && isStdout(el) && i < stt.NumFields() && isIface(stt.Field(i).Type()) {
							hookStdout(el)
						}
					}
				case *ast.CallExpr:
					tv, ok := p.info.Types[s.Fun]
					if !ok || tv.Type == nil || tv.IsType() {
						return true
					}
					sig, isSig := tv.Type.Underlying().(*types.Signature)
					if !isSig {
						return true
					}
					for i, arg := range s.Args {
						if !isStdout(arg) {
							continue
						}
						var pt types.Type
						np := sig.Params().Len()
						switch {
						case sig.Variadic() && i >= np-1:
							if sl, ok := sig.Params().At(np - 1).Type().(*types.Slice); ok {
								pt = sl.Elem()
							}
						case i < np:
							pt = sig.Params().At(i).Type()
						}
						if isIface(pt) {
							hookStdout(arg)
						}
					}
				case *ast.AssignStmt:
					if s.Tok == token.ASSIGN && len(s.Lhs) == len(s.Rhs) {
						for i, r := range s.Rhs {
							if isStdout(r) {
								if tv, ok := p.info.Types[s.Lhs[i]]; ok && isIface(tv.Type) {
									hookStdout(r)
								}
							}
						}
					}
				case *ast.ValueSpec:
					if s.Type != nil {
						if tv, ok := p.info.Types[s.Type]; ok && isIface(tv.Type) {
							for _, v := range s.Values {
								if isStdout(v) {
									hookStdout(v)
								}
							}
						}
					}
				}
				return true
			})
			ast.Inspect(f, func(n ast.Node) bool {
				switch s := n.(type) {
				case *ast.RangeStmt:
					tv, ok := p.info.Types[s.X]
					if !ok || tv.Type == nil {
						return true
					}
					if _, isChan := tv.Type.Underlying().(*types.Chan); isChan {
						// for v := range ch { ... }  ->  for { v, ok := recv(ch); if !ok { break }; ... }
						hi, okh := helperFor(s.X)
						if !okh {
							st.ChanOpsUnhooked = append(st.ChanOpsUnhooked, site(s.Pos())+":range")
							return true
						}
						hdr := ""
						switch {
						case s.Key == nil:
							hdr = fmt.Sprintf("for { _, verifOk_ := %s; if !verifOk_ { break };", recv2(hi, text(s.X)))
						case s.Tok == token.DEFINE:
							hdr = fmt.Sprintf("for { %s, verifOk_ := %s; if !verifOk_ { break };", text(s.Key), recv2(hi, text(s.X)))
						default:
							hdr = fmt.Sprintf("for { var verifOk_ bool; %s, verifOk_ = %s; if !verifOk_ { break };", text(s.Key), recv2(hi, text(s.X)))
						}
						edits = append(edits, edit{off(s.Pos()), off(s.Body.Lbrace) + 1, hdr})
						st.ChanSendsHooked = append(st.ChanSendsHooked, site(s.Pos())+":range")
						return true
					}
					mt, isMap := tv.Type.Underlying().(*types.Map)
					if !isMap {
						return true
					}
					sname := site(s.Pos())
					if s.Key == nil {
						return true // `for range m`: order unobservable
					}
					bk, okb := mt.Key().Underlying().(*types.Basic)
					if !okb || bk.Kind() != types.String || !pureExpr(s.X) || mutatesMap(s.Body, s.X, src, off) {
						st.MapSitesUnhooked = append(st.MapSitesUnhooked, sname)
						return true
					}
					xText := string(src[off(s.X.Pos()):off(s.X.End())])
					keyText := string(src[off(s.Key.Pos()):off(s.Key.End())])
					tok := s.Tok.String()
					var body string
					keyVar := keyText
					if keyText == "_" {
						keyVar = "verifKey_"
						if tok != ":=" {
							st.MapSitesUnhooked = append(st.MapSitesUnhooked, sname)
							return true
						}
					}
					conv := keyVar
					if named, isNamed := mt.Key().(*types.Named); isNamed {
						_ = named
						// named string key type: convert through the map's key type is not spellable in general
						st.MapSitesUnhooked = append(st.MapSitesUnhooked, sname)
						return true
					}
					if s.Value != nil {
						valText := string(src[off(s.Value.Pos()):off(s.Value.End())])
						if valText != "_" {
							body = fmt.Sprintf(" %s %s %s[%s];", valText, tok, xText, conv)
						}
					}
					hdr := fmt.Sprintf("for _, %s %s range verifshim.StringKeys(%s, %q) {", keyVar, tok, xText, sname)
					if keyText == "_" {
						hdr = fmt.Sprintf("for _, %s := range verifshim.StringKeys(%s, %q) {", keyVar, xText, sname)
					}
					edits = append(edits, edit{off(s.Pos()), off(s.Body.Lbrace) + 1, hdr + body})
					st.MapSitesHooked = append(st.MapSitesHooked, sname)
				case *ast.SendStmt:
					if inSelect[s] {
						return true
					}
					edits = append(edits, edit{off(s.Pos()), off(s.End()), fmt.Sprintf("verifshim.Send(%s, %s)", text(s.Chan), text(s.Value))})
					st.ChanSendsHooked = append(st.ChanSendsHooked, site(s.Pos()))
				case *ast.SelectStmt:
					// select -> switch over verifshim.Select(...): every case becomes a transition of the scheduler
					var cases []string
					hasDefault := false
					type clauseEdit struct {
						cc   *ast.CommClause
						head string
					}
					var ces []clauseEdit
					okAll := true
					idx := 0
					for _, cl := range s.Body.List {
						cc := cl.(*ast.CommClause)
						switch comm := cc.Comm.(type) {
						case nil:
							hasDefault = true
							ces = append(ces, clauseEdit{cc, "case -1:"})
						case *ast.SendStmt:
							inSelect[comm] = true
							cases = append(cases, fmt.Sprintf("verifshim.SendCase(%s, %s)", text(comm.Chan), text(comm.Value)))
							ces = append(ces, clauseEdit{cc, fmt.Sprintf("case %d:", idx)})
							idx++
						case *ast.ExprStmt:
							ue, isRecv := comm.X.(*ast.UnaryExpr)
							if !isRecv || ue.Op != token.ARROW {
								okAll = false
								break
							}
							inSelect[ue] = true
							cases = append(cases, fmt.Sprintf("verifshim.RecvCase(%s)", text(ue.X)))
							ces = append(ces, clauseEdit{cc, fmt.Sprintf("case %d:", idx)})
							idx++
						case *ast.AssignStmt:
							ue, isRecv := comm.Rhs[0].(*ast.UnaryExpr)
							if !isRecv || ue.Op != token.ARROW || len(comm.Rhs) != 1 {
								okAll = false
								break
							}
							hi, okh := helperFor(ue.X)
							if !okh {
								okAll = false
								break
							}
							inSelect[ue] = true
							cases = append(cases, fmt.Sprintf("verifshim.RecvCase(%s)", text(ue.X)))
							head := fmt.Sprintf("case %d: %s %s %s;", idx, text(comm.Lhs[0]), comm.Tok.String(), valOf(hi, "verifSel_.Value"))
							if len(comm.Lhs) == 2 {
								head = fmt.Sprintf("case %d: %s, %s %s %s, verifSel_.Ok;", idx, text(comm.Lhs[0]), text(comm.Lhs[1]), comm.Tok.String(), valOf(hi, "verifSel_.Value"))
							}
							ces = append(ces, clauseEdit{cc, head})
							idx++
						default:
							okAll = false
						}
					}
					if !okAll {
						st.ChanOpsUnhooked = append(st.ChanOpsUnhooked, site(s.Pos())+":select")
						return true
					}
					edits = append(edits, edit{off(s.Pos()), off(s.Body.Lbrace) + 1, fmt.Sprintf("switch verifSel_ := verifshim.Select(%v, %s); verifSel_.Index {", hasDefault, strings.Join(cases, ", "))})
					for _, ce := range ces {
						edits = append(edits, edit{off(ce.cc.Pos()), off(ce.cc.Colon) + 1, ce.head})
					}
					// a select whose clauses all return is a terminating statement; so is a switch with a default clause
					edits = append(edits, edit{off(s.Body.Rbrace), off(s.Body.Rbrace), "default: panic(\"verifshim: select index out of range\"); "})
					st.ChanSendsHooked = append(st.ChanSendsHooked, site(s.Pos())+":select")
				case *ast.AssignStmt:
					if len(s.Rhs) != 1 {
						return true
					}
					ue, isRecv := s.Rhs[0].(*ast.UnaryExpr)
					if !isRecv || ue.Op != token.ARROW || inSelect[ue] {
						return true
					}
					hi, okh := helperFor(ue.X)
					if !okh {
						return true
					}
					inSelect[ue] = true
					repl := recv1(hi, text(ue.X))
					if len(s.Lhs) == 2 {
						repl = recv2(hi, text(ue.X))
					}
					edits = append(edits, edit{off(ue.Pos()), off(ue.End()), repl})
					st.ChanSendsHooked = append(st.ChanSendsHooked, site(ue.Pos())+":recv")
				case *ast.UnaryExpr:
					if s.Op != token.ARROW || inSelect[s] {
						return true
					}
					hi, okh := helperFor(s.X)
					if !okh {
						st.ChanOpsUnhooked = append(st.ChanOpsUnhooked, site(s.Pos())+":recv")
						return true
					}
					edits = append(edits, edit{off(s.Pos()), off(s.End()), recv1(hi, text(s.X))})
					st.ChanSendsHooked = append(st.ChanSendsHooked, site(s.Pos())+":recv")
				case *ast.GoStmt:
					// The function value and the arguments of a go statement are evaluated by the starting goroutine,
					// at the statement; only the call itself happens in the new one. The rewritten statement keeps that:
					//   go func(p T) { body }(a)   ->  verifshim.Go(func(p T) func() { return func() { body } }(a))
					//   go f(a, b)                 ->  verifshim.Go(func(verifF FT, verifA0 T0, verifA1 T1) func() { return func() { verifF(verifA0, verifA1) } }(f, a, b))
					if lit, isLit := s.Call.Fun.(*ast.FuncLit); isLit {
						edits = append(edits, edit{off(s.Pos()), off(lit.Pos()), "verifshim.Go("})
						if lit.Type.Results == nil || len(lit.Type.Results.List) == 0 {
							edits = append(edits, edit{off(lit.Body.Lbrace), off(lit.Body.Lbrace), " func() { return func() "})
							edits = append(edits, edit{off(lit.Body.Rbrace) + 1, off(lit.Body.Rbrace) + 1, " }"})
						} else {
							edits = append(edits, edit{off(lit.Type.Params.End()), off(lit.Body.Lbrace), " func() { return func() { func() " + text(lit.Type.Results) + " "})
							edits = append(edits, edit{off(lit.Body.Rbrace) + 1, off(lit.Body.Rbrace) + 1, "() } }"})
						}
						edits = append(edits, edit{off(s.Call.End()), off(s.Call.End()), ")"})
						st.ChanSendsHooked = append(st.ChanSendsHooked, site(s.Pos())+":go")
						return true
					}
					eager := false
					if tv, ok := p.info.Types[s.Call.Fun]; ok && tv.Type != nil && !tv.IsType() && !tv.IsBuiltin() {
						if sig, isSig := tv.Type.Underlying().(*types.Signature); isSig {
							np := sig.Params().Len()
							okArgs := true
							var decl, use []string
							decl = append(decl, "verifF "+types.TypeString(tv.Type, qual))
							for i := range s.Call.Args {
								var pt types.Type
								spread := false
								switch {
								case sig.Variadic() && i >= np-1:
									sl, isSl := sig.Params().At(np - 1).Type().(*types.Slice)
									if !isSl {
										okArgs = false
										break
									}
									if s.Call.Ellipsis.IsValid() {
										pt, spread = sl, true
									} else {
										pt = sl.Elem()
									}
								case i < np:
									pt = sig.Params().At(i).Type()
								default:
									okArgs = false // f(g()) with a multi-valued g
								}
								if pt == nil {
									okArgs = false
									break
								}
								decl = append(decl, fmt.Sprintf("verifA%d %s", i, types.TypeString(pt, qual)))
								if spread {
									use = append(use, fmt.Sprintf("verifA%d...", i))
								} else {
									use = append(use, fmt.Sprintf("verifA%d", i))
								}
							}
							if len(s.Call.Args) < np && !(sig.Variadic() && len(s.Call.Args) == np-1) {
								okArgs = false
							}
							if okArgs {
								eager = true
								edits = append(edits, edit{off(s.Pos()), off(s.Call.Pos()), "verifshim.Go(func(" + strings.Join(decl, ", ") + ") func() { return func() { verifF(" + strings.Join(use, ", ") + ") } }("})
								sep := ""
								if len(s.Call.Args) > 0 {
									sep = ", "
								}
								edits = append(edits, edit{off(s.Call.Lparen), off(s.Call.Lparen) + 1, sep})
								edits = append(edits, edit{off(s.Call.End()), off(s.Call.End()), ")"})
							}
						}
					}
					if !eager {
						// (a built-in or a shape not handled above: the whole call moves into the new goroutine)
						edits = append(edits, edit{off(s.Pos()), off(s.Call.Pos()), "verifshim.Go(func() { "})
						edits = append(edits, edit{off(s.Call.End()), off(s.Call.End()), " })"})
						st.ChanOpsUnhooked = append(st.ChanOpsUnhooked, site(s.Pos())+":go-arguments-evaluated-late")
					}
					st.ChanSendsHooked = append(st.ChanSendsHooked, site(s.Pos())+":go")
				case *ast.CallExpr:
					if id, ok := s.Fun.(*ast.Ident); ok && id.Name == "close" && len(s.Args) == 1 {
						if tv, ok := p.info.Types[s.Args[0]]; ok && tv.Type != nil {
							if _, isChan := tv.Type.Underlying().(*types.Chan); isChan {
								edits = append(edits, edit{off(s.Fun.Pos()), off(s.Fun.End()), "verifshim.Close"})
								st.ChanSendsHooked = append(st.ChanSendsHooked, site(s.Pos())+":close")
							}
						}
					}
				}
				return true
			})
			fileResets := plan.byFile[fi]
			// the standard package sync is replaced by the cooperative stand-in (same package name, other path)
			for _, im := range f.Imports {
				if im.Path.Value == `"sync"` {
					edits = append(edits, edit{off(im.Path.Pos()), off(im.Path.End()), `"` + shimImportPath + `/vsync"`})
					st.SyncImportsRewritten = append(st.SyncImportsRewritten, site(im.Pos()))
				}
				if im.Path.Value == `"sync/atomic"` {
					edits = append(edits, edit{off(im.Path.Pos()), off(im.Path.End()), `"` + shimImportPath + `/vatomic"`})
					st.SyncImportsRewritten = append(st.SyncImportsRewritten, site(im.Pos())+":atomic")
				}
			}
			if len(edits) == 0 && len(fileResets) == 0 {
				continue
			}
			// import on the package clause line (keeps line numbers)
			edits = append(edits, edit{off(f.Name.End()), off(f.Name.End()), "; import verifshim \"" + shimImportPath + "\""})
			sort.Slice(edits, func(i, j int) bool { return edits[i].start < edits[j].start })
			var buf bytes.Buffer
			last := 0
			for _, e := range edits {
				if e.start < last {
					return "", nil, fmt.Errorf("overlapping edits in %s", fname)
				}
				buf.Write(src[last:e.start])
				buf.WriteString(e.text)
				last = e.end
			}
			buf.Write(src[last:])
			for i, ts := range helperTypes {
				if helperLocal[i] {
					continue
				}
				fmt.Fprintf(&buf, "\nfunc verifVal_%d(v interface{}) %s {\n\tif v == nil {\n\t\tvar z %s\n\t\treturn z\n\t}\n\treturn v.(%s)\n}\n", i, ts, ts, ts)
				fmt.Fprintf(&buf, "func verifRecv2_%d(ch interface{}) (%s, bool) {\n\tv, ok := verifshim.Recv(ch)\n\treturn verifVal_%d(v), ok\n}\n", i, ts, i)
				fmt.Fprintf(&buf, "func verifRecv1_%d(ch interface{}) %s {\n\tv, _ := verifshim.Recv(ch)\n\treturn verifVal_%d(v)\n}\n", i, ts, i)
			}
			fmt.Fprintf(&buf, "\nvar _ = verifshim.Zero\n")
			if keepOS != "" {
				fmt.Fprintf(&buf, "\nvar _ = %s\n", keepOS)
			}
			for _, r := range fileResets {
				fmt.Fprintf(&buf, "\nfunc verifReset_%d_() { %s }\n", r.id, r.body)
			}
			if fi == plan.registerIn {
				fmt.Fprintf(&buf, "\nfunc init() {\n\tverifshim.RegisterReset(%q, func() {\n", ip)
				for _, id := range plan.order {
					fmt.Fprintf(&buf, "\t\tverifReset_%d_()\n", id)
				}
				fmt.Fprintf(&buf, "\t})\n}\n")
			}
			rel, _ := filepath.Rel(repo, fname)
			dst := filepath.Join(rwdir, rel)
			if err := os.MkdirAll(filepath.Dir(dst), 0o755); err != nil {
				return "", nil, err
			}
			if err := os.WriteFile(dst, buf.Bytes(), 0o644); err != nil {
				return "", nil, err
			}
			overlay[fname] = dst
		}
	}
	// shim: virtual package of the root module
	shimFiles, _ := filepath.Glob(filepath.Join(verif, "shim", "*.go"))
	for _, sf := range shimFiles {
		overlay[filepath.Join(repo, "verifshim", filepath.Base(sf))] = sf
	}
	vaFiles, _ := filepath.Glob(filepath.Join(verif, "shim", "vatomic", "*.go"))
	for _, sf := range vaFiles {
		overlay[filepath.Join(repo, "verifshim", "vatomic", filepath.Base(sf))] = sf
	}
	vsFiles, _ := filepath.Glob(filepath.Join(verif, "shim", "vsync", "*.go"))
	for _, sf := range vsFiles {
		overlay[filepath.Join(repo, "verifshim", "vsync", filepath.Base(sf))] = sf
	}
	// harness: _test.go files of package main of the cmd module
	hFiles, _ := filepath.Glob(filepath.Join(verif, "harness", "*.go"))
	for _, hf := range hFiles {
		base := strings.TrimSuffix(filepath.Base(hf), ".go")
		base = strings.TrimSuffix(base, "_test")
		overlay[filepath.Join(repo, "cmd", "hranoprovod-cli", "zzverif_"+base+"_test.go")] = hf
	}
	// export shims for unexported constructors
	exp := filepath.Join(out, "export_verif_lint.go")
	os.WriteFile(exp, []byte("package lint\n\n// VerifNewLintCommand exposes the unexported constructor to the verification harness.\nvar VerifNewLintCommand = newLintCommand\n"), 0o644)
	overlay[filepath.Join(repo, "cmd", "hranoprovod-cli", "internal", "lint", "export_verif.go")] = exp
	sort.Strings(st.MapSitesHooked)
	ob, _ := json.MarshalIndent(map[string]interface{}{"Replace": overlay}, "", " ")
	ofile := filepath.Join(out, "overlay.json")
	if err := os.WriteFile(ofile, ob, 0o644); err != nil {
		return "", nil, err
	}
	return ofile, st, nil
}

// pureExpr: identifier or selector chain (no calls, no index) – evaluating it twice is safe.
func pureExpr(e ast.Expr) bool {
	switch x := e.(type) {
	case *ast.Ident:
		return true
	case *ast.SelectorExpr:
		return pureExpr(x.X)
	case *ast.ParenExpr:
		return pureExpr(x.X)
	case *ast.StarExpr:
		return pureExpr(x.X)
	}
	return false
}

// mutatesMap: does the loop body assign to m[...] or delete(m, ...) for the ranged map expression (textual match)?
func mutatesMap(body *ast.BlockStmt, x ast.Expr, src []byte, off func(token.Pos) int) bool {
	xText := string(src[off(x.Pos()):off(x.End())])
	found := false
	ast.Inspect(body, func(n ast.Node) bool {
		switch s := n.(type) {
		case *ast.AssignStmt:
			for _, lhs := range s.Lhs {
				if ix, ok := lhs.(*ast.IndexExpr); ok {
					if string(src[off(ix.X.Pos()):off(ix.X.End())]) == xText && s.Tok == token.ASSIGN {
						// plain assignment m[k] = v to an existing key is order-neutral only if key exists; be conservative
						found = true
					}
				}
			}
		case *ast.CallExpr:
			if id, ok := s.Fun.(*ast.Ident); ok && id.Name == "delete" && len(s.Args) > 0 {
				if string(src[off(s.Args[0].Pos()):off(s.Args[0].End())]) == xText {
					found = true
				}
			}
		}
		return true
	})
	return found
}

// ---- package-level state ----------------------------------------------------------------------------------------
// The in-process application driver runs the application thousands of times in one process, whereas every real
// invocation of the tool starts with freshly initialised package-level variables. planResets generates, per package,
// a function that gives every package-level variable its initial value again (zero value, or its initialiser when
// that is a plain constructive expression); runApp calls all of them before each run. Packages with an init function
// and variables whose initialiser calls arbitrary functions are left alone (and listed in the evidence).

type resetFn struct {
	id   int
	body string
}

type resetPlan struct {
	byFile     map[int][]resetFn
	order      []int
	registerIn int
}

var pureCalls = map[string]bool{"errors.New": true, "fmt.Errorf": true, "fmt.Sprintf": true, "fmt.Sprint": true, "regexp.MustCompile": true,
	"regexp.MustCompilePOSIX": true, "strings.NewReplacer": true, "strings.Repeat": true, "bytes.NewBuffer": true, "bytes.NewBufferString": true,
	"big.NewRat": true, "big.NewInt": true, "math.Inf": true, "math.NaN": true, "time.Date": true, "strings.Split": true, "strings.Fields": true}

func planResets(fset *token.FileSet, repo string, p *srcPkg, st *rewriteStats) resetPlan {
	plan := resetPlan{byFile: map[int][]resetFn{}, registerIn: -1}
	if p.tpkg == nil {
		return plan
	}
	rel := func(pos token.Pos) string {
		ps := fset.Position(pos)
		r, _ := filepath.Rel(repo, ps.Filename)
		return fmt.Sprintf("%s:%d", filepath.ToSlash(r), ps.Line)
	}
	hasInit := false
	for _, f := range p.files {
		for _, d := range f.Decls {
			if fd, ok := d.(*ast.FuncDecl); ok && fd.Recv == nil && fd.Name.Name == "init" {
				hasInit = true
			}
		}
	}
	var constructive func(e ast.Expr) bool
	constructive = func(e ast.Expr) bool {
		if e == nil {
			return true
		}
		if tv, ok := p.info.Types[e]; ok && tv.IsType() {
			return true
		}
		switch x := e.(type) {
		case *ast.BasicLit, *ast.FuncLit:
			return true
		case *ast.Ident:
			return true
		case *ast.SelectorExpr:
			if id, ok := x.X.(*ast.Ident); ok {
				if _, isPkg := p.info.Uses[id].(*types.PkgName); isPkg {
					return true // a constant, variable or function VALUE of another package
				}
			}
			return constructive(x.X)
		case *ast.ParenExpr:
			return constructive(x.X)
		case *ast.UnaryExpr:
			return x.Op != token.ARROW && constructive(x.X)
		case *ast.BinaryExpr:
			return constructive(x.X) && constructive(x.Y)
		case *ast.StarExpr:
			return constructive(x.X)
		case *ast.KeyValueExpr:
			return constructive(x.Key) && constructive(x.Value)
		case *ast.CompositeLit:
			for _, el := range x.Elts {
				if !constructive(el) {
					return false
				}
			}
			return true
		case *ast.CallExpr:
			ok := false
			if tv, has := p.info.Types[x.Fun]; has && tv.IsType() {
				ok = true // conversion
			} else if id, isId := x.Fun.(*ast.Ident); isId {
				if _, isBuiltin := p.info.Uses[id].(*types.Builtin); isBuiltin {
					switch id.Name {
					case "make", "new", "len", "cap", "append", "complex", "real", "imag", "min", "max":
						ok = true
					}
				}
			} else if sel, isSel := x.Fun.(*ast.SelectorExpr); isSel {
				if id, isId := sel.X.(*ast.Ident); isId {
					if pn, isPkg := p.info.Uses[id].(*types.PkgName); isPkg && pureCalls[pn.Imported().Name()+"."+sel.Sel.Name] {
						ok = true
					}
				}
			}
			if !ok {
				return false
			}
			for _, a := range x.Args {
				if !constructive(a) {
					return false
				}
			}
			return true
		}
		return false
	}
	next := 0
	idOf := map[types.Object]int{}
	var zeroIDs []int
	for fi, f := range p.files {
		src, err := os.ReadFile(p.names[fi])
		if err != nil {
			continue
		}
		off := func(pos token.Pos) int { return fset.Position(pos).Offset }
		for _, d := range f.Decls {
			gd, ok := d.(*ast.GenDecl)
			if !ok || gd.Tok != token.VAR {
				continue
			}
			for _, sp := range gd.Specs {
				vs := sp.(*ast.ValueSpec)
				var names []string
				blank := false
				for _, n := range vs.Names {
					if n.Name == "_" {
						blank = true
					}
					names = append(names, n.Name)
				}
				if blank && len(names) == 1 {
					continue // no state
				}
				label := fmt.Sprintf("%s %s.%s", rel(vs.Pos()), p.tpkg.Name(), strings.Join(names, ","))
				embed := false
				for _, cg := range []*ast.CommentGroup{gd.Doc, vs.Doc} {
					if cg == nil {
						continue
					}
					for _, c := range cg.List {
						if strings.HasPrefix(c.Text, "//go:embed") {
							embed = true
						}
					}
				}
				if hasInit || blank || embed {
					why := "package has an init function"
					if embed {
						why = "go:embed"
					} else if blank {
						why = "blank name in the specification"
					}
					st.PkgVarsNotReset = append(st.PkgVarsNotReset, label+" ("+why+")")
					continue
				}
				body := ""
				if len(vs.Values) == 0 {
					for _, n := range names {
						body += "verifshim.Zero(&" + n + "); "
					}
				} else {
					ok := true
					for _, v := range vs.Values {
						if !constructive(v) {
							ok = false
						}
					}
					if !ok {
						st.PkgVarsNotReset = append(st.PkgVarsNotReset, label+" (initialiser calls a function)")
						continue
					}
					body = strings.Join(names, ", ") + " = " + string(src[off(vs.Values[0].Pos()):off(vs.Values[len(vs.Values)-1].End())])
				}
				id := next
				next++
				plan.byFile[fi] = append(plan.byFile[fi], resetFn{id, body})
				for _, n := range vs.Names {
					if o := p.info.Defs[n]; o != nil {
						idOf[o] = id
					}
				}
				if len(vs.Values) == 0 {
					zeroIDs = append(zeroIDs, id)
				}
				st.PkgVarsReset = append(st.PkgVarsReset, label)
				if plan.registerIn < 0 {
					plan.registerIn = fi
				}
			}
		}
	}
	// zero values first, then the initialisers in the package's initialisation order
	done := map[int]bool{}
	for _, id := range zeroIDs {
		plan.order = append(plan.order, id)
		done[id] = true
	}
	for _, in := range p.info.InitOrder {
		for _, v := range in.Lhs {
			if id, ok := idOf[v]; ok && !done[id] {
				plan.order = append(plan.order, id)
				done[id] = true
			}
		}
	}
	for id := 0; id < next; id++ { // (anything the type checker did not order, e.g. after a type error)
		if !done[id] {
			plan.order = append(plan.order, id)
		}
	}
	return plan
}

// mentionsLocalType: the type names a type declared inside a function (not at package level, not predeclared)
func mentionsLocalType(t types.Type, pkg *types.Package) bool {
	seen := map[types.Type]bool{}
	var walk func(t types.Type) bool
	walk = func(t types.Type) bool {
		if t == nil || seen[t] {
			return false
		}
		seen[t] = true
		switch u := t.(type) {
		case *types.Named:
			o := u.Obj()
			if o != nil && o.Pkg() != nil && o.Parent() != nil && o.Parent() != o.Pkg().Scope() {
				return true
			}
			if ta := u.TypeArgs(); ta != nil {
				for i := 0; i < ta.Len(); i++ {
					if walk(ta.At(i)) {
						return true
					}
				}
			}
			return false
		case *types.Pointer:
			return walk(u.Elem())
		case *types.Slice:
			return walk(u.Elem())
		case *types.Array:
			return walk(u.Elem())
		case *types.Chan:
			return walk(u.Elem())
		case *types.Map:
			return walk(u.Key()) || walk(u.Elem())
		case *types.Struct:
			for i := 0; i < u.NumFields(); i++ {
				if walk(u.Field(i).Type()) {
					return true
				}
			}
		case *types.Signature:
			for i := 0; i < u.Params().Len(); i++ {
				if walk(u.Params().At(i).Type()) {
					return true
				}
			}
			for i := 0; i < u.Results().Len(); i++ {
				if walk(u.Results().At(i).Type()) {
					return true
				}
			}
		}
		return false
	}
	return walk(t)
}
