package main

// Free-running pass on the real program built with the race detector (C05, C08). The cooperative scheduler of the
// model-checking pass switches threads at channel and lock operations only; what two goroutines do to the same memory
// BETWEEN such operations (a buffer handed over and written again, a flag read without synchronisation) is invisible to
// it by construction. This pass runs the un-instrumented binary, built with -race, on inputs long enough to keep a
// pipeline busy, several times each: a data-race report, two different outcomes of the same command, or a run that
// does not end are violations. Complementary to, not part of, the deciding exploration.

import (
	"bytes"
	"context"
	"fmt"
	"io"
	"os"
	"os/exec"
	"path/filepath"
	"regexp"
	"strings"
	"sync"
	"time"
)

type raceCase struct {
	input string
	args  []string
}

var stampRe = regexp.MustCompile(`(?m)^\d{4}/\d{2}/\d{2} \d{2}:\d{2}:\d{2} `)

func appRacePass(id, repo, bdir string) (info map[string]interface{}, viols []Violation) {
	info = map[string]interface{}{}
	t0 := time.Now()
	bin := filepath.Join(bdir, "hr-race")
	out, err := run(filepath.Join(repo, "cmd", "hranoprovod-cli"), goEnv(), "go", "build", "-race", "-o", bin, ".")
	if err != nil {
		info["error"] = "race build failed: " + tail(out, 800)
		return
	}
	info["build_s"] = time.Since(t0).Seconds()
	// inputs
	var book, long, bad, badBook strings.Builder
	for r := 0; r < 90; r++ {
		book.WriteString(fmt.Sprintf("food/%03d:\n  cal: %d\n  fat: 1\n  el/%d: 2\n", r, r, r%7))
	}
	book.WriteString("menu:\n  food/001: 2\n  food/002: 1\n")
	for d := 0; d < 1600; d++ {
		date := fmt.Sprintf("20%02d/%02d/%02d", 21+d/336, 1+(d/28)%12, 1+d%28)
		long.WriteString(fmt.Sprintf("%s:\n  food/%03d: 1\n  # n: %d\n  unknown/%d: 2\n  menu: 0.5\n", date, d%90, d, d%5))
		if d == 320 {
			bad.WriteString("2000/12/45:\n  food/001: 1\n") // a heading that is not a date, deep inside a long log
		}
		bad.WriteString(fmt.Sprintf("%s:\n  food/%03d: 1\n  unknown/%d: 2\n", date, d%90, d%5))
	}
	badBook.WriteString(book.String() + "broken:\n  cal: many\n")
	inputs := map[string][2]string{
		"long":     {book.String(), long.String()},
		"bad-date": {book.String(), bad.String()},
		"both-bad": {badBook.String(), "2021/01/24:\n  food/001: lots\n"},
		"small":    {"r1:\n  cal: 2\n", "2021/01/24:\n  r1: 1\n  u: 2\n2021/01/25:\n  r1: 2\n"},
	}
	for name, fl := range inputs {
		dir := filepath.Join(bdir, "race-in", name)
		os.MkdirAll(dir, 0o755)
		os.WriteFile(filepath.Join(dir, "food.yaml"), []byte(fl[0]), 0o644)
		os.WriteFile(filepath.Join(dir, "log.yaml"), []byte(fl[1]), 0o644)
	}
	cmds := [][]string{{"reg"}, {"reg", "--use-old-reg-reporter"}, {"reg", "--shorten", "--totals-only"}, {"reg", "-s", "cal"}, {"reg", "-s", "cal", "-g"}, {"reg", "-f", "."}, {"reg", "-f", "("},
		{"bal"}, {"bal", "-c"}, {"bal", "-s", "cal"}, {"print"}, {"csv", "log"}, {"csv", "database"}, {"csv", "database-resolved"}, {"summary", "2021/01/24"},
		{"report", "totals"}, {"report", "quantity"}, {"report", "unresolved"}, {"report", "element-total", "cal"}, {"stats"}, {"lint", "log.yaml"}, {"-b", "2021/03/01", "-e", "2021/06/01", "reg"}}
	var cases []raceCase
	for name := range inputs {
		for _, c := range cmds {
			cases = append(cases, raceCase{name, c})
		}
	}
	const reps = 3
	type outcome struct {
		key, stderr string
		timedOut    bool
	}
	results := make([][]outcome, len(cases))
	var wg sync.WaitGroup
	sem := make(chan struct{}, 16)
	for ci := range cases {
		results[ci] = make([]outcome, reps)
		for r := 0; r < reps; r++ {
			wg.Add(1)
			sem <- struct{}{}
			go func(ci, r int) {
				defer wg.Done()
				defer func() { <-sem }()
				ctx, cancel := context.WithTimeout(context.Background(), 60*time.Second)
				defer cancel()
				cmd := exec.CommandContext(ctx, bin, append([]string{"--no-color", "--today", "2021/02/01"}, cases[ci].args...)...)
				cmd.Dir = filepath.Join(bdir, "race-in", cases[ci].input)
				cmd.Env = []string{"HOME=" + cmd.Dir, "TZ=UTC", "PATH=/usr/bin:/bin", "GORACE=atexit_sleep_ms=0 halt_on_error=0"}
				var so, se bytes.Buffer
				cmd.Stdout, cmd.Stderr = &so, &se
				var err error
				if r == reps-1 {
					// the last run writes into a pipe nobody reads for a while (`hranoprovod-cli ... | (sleep 0.3; cat)`): a
					// report beyond the pipe's 64 KiB keeps the writing goroutine parked in its write
					cmd.Stdout = nil
					pipe, perr := cmd.StdoutPipe()
					if perr == nil {
						if err = cmd.Start(); err == nil {
							time.Sleep(300 * time.Millisecond)
							io.Copy(&so, pipe)
							err = cmd.Wait()
						}
					} else {
						err = perr
					}
				} else {
					err = cmd.Run()
				}
				code := 0
				if err != nil {
					code = -1
					if ee, ok := err.(*exec.ExitError); ok {
						code = ee.ExitCode()
					}
				}
				errText := stampRe.ReplaceAllString(se.String(), "")
				o := outcome{stderr: se.String(), timedOut: ctx.Err() != nil}
				if strings.Contains(errText, "WARNING: DATA RACE") {
					errText = "(race report)"
				}
				o.key = fmt.Sprintf("exit %d\n%s\n%s", code, so.String(), errText)
				results[ci][r] = o
			}(ci, r)
		}
	}
	wg.Wait()
	info["free_runs"] = len(cases) * reps
	races, diffs, hangs := 0, 0, 0
	for ci, rs := range results {
		name := strings.Join(cases[ci].args, " ") + " (input " + cases[ci].input + ")"
		for r, o := range rs {
			if o.timedOut {
				hangs++
				if id == "C08" || id == "C05" {
					viols = append(viols, Violation{Sig: id + "|free-run|" + strings.Join(cases[ci].args, " ") + "|does-not-terminate", Detail: "`hranoprovod-cli " + name + "` (built with -race, run " + fmt.Sprint(r) + ") did not end within 60 s\n" + tail(o.stderr, 1500)})
				}
				break
			}
			if strings.Contains(o.stderr, "WARNING: DATA RACE") {
				races++
				viols = append(viols, Violation{Sig: id + "|data-race|" + strings.Join(cases[ci].args, " "), Detail: "`hranoprovod-cli " + name + "` built with -race reports a data race:\n" + tail(o.stderr, 2500)})
				break
			}
			if r > 0 && o.key != rs[0].key {
				diffs++
				viols = append(viols, Violation{Sig: id + "|free-run|" + strings.Join(cases[ci].args, " ") + "|outcome-differs-between-runs", Detail: "`hranoprovod-cli " + name + "`: run 0:\n" + tail(rs[0].key, 1200) + "\nrun " + fmt.Sprint(r) + ":\n" + tail(o.key, 1200)})
				break
			}
		}
	}
	info["data_races_reported"], info["outcomes_differing_between_runs"], info["runs_not_terminating"] = races, diffs, hangs
	info["wall_s"] = time.Since(t0).Seconds()
	return
}
