package main

var commonAssumptions = []string{
	"the Go toolchain, the standard library and the third-party modules (urfave/cli, gcfg, truncate, naturaldate) behave deterministically",
	"the overlay rewriter preserves semantics: a range over a map is replaced by a range over a snapshot of its keys in an explorer-chosen order (sites that insert/delete inside the loop are left unhooked and reported)",
	"bounds are bounds: the claim covers exactly the enumerated alphabet and sizes reported in coverage",
}

var props = map[string]propMeta{
	"C11": {Level: "model_checking", QuickS: 60, ThoroughS: 900,
		Rule: "all directed ingredient graphs on k recipes + 1 leaf (every subset of names as ingredient set, self-reference and cycles included) x depth limit N x both resolve entry points x every visiting order of the recipe map (explorer-chosen permutation); plus chains of every length around N under all/rotated orders. A case (graph,N,api) is non-trivial when it has at least one recipe-to-recipe reference.",
		Assumptions: commonAssumptions},
}
