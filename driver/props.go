package main

var commonAssumptions = []string{
	"the Go toolchain, the standard library and the third-party modules (urfave/cli, gcfg, truncate, naturaldate) behave deterministically",
	"the overlay rewriter preserves semantics: a range over a map is replaced by a range over a snapshot of its keys in an explorer-chosen order (sites that insert/delete inside the loop are left unhooked and reported)",
	"bounds are bounds: the claim covers exactly the enumerated alphabet and sizes reported in coverage",
}

var props = map[string]propMeta{
	"C15": {Level: "model_checking", QuickS: 200, ThoroughS: 1800,
		Rule: "full product colour {default, --no-color global, --no-color on reg} x template {default, left-aligned, old} x shorten x totals {default, --no-totals, --totals-only} (54 register configurations) x every log of <= 2 (thorough 3) + optional second-day entries over 4 foods (35-rune path name, multi-byte names, undefined food) x {1,-2,0}; plus --desc on report quantity / element-total over all logs of <= 3 entries. A case is non-trivial when the first day has entries.",
		Assumptions: commonAssumptions},
	"C12": {Level: "model_checking", QuickS: 200, ThoroughS: 1800,
		Rule: "every append history of <= 4 (thorough 6) day blocks over 7 blocks (same date again, same entries in another order, empty day, negative quantities, repeated food, note) x 2 books; on every edge H -> H.b the concatenation law (8 per-day commands, byte-wise) and the element-wise-sum law (5 period commands, parsed row maps) are checked on the real program. A case is non-trivial when the history before the appended block is non-empty.",
		Assumptions: commonAssumptions},
	"C07": {Level: "model_checking", QuickS: 200, ThoroughS: 1800,
		Rule: "2 books (nested recipe, empty recipe, repeated ingredient, zero coefficient) x every log of two days (<= 2+1 entries quick, <= 3+2 thorough, over 5 foods incl. an undefined food and a directly logged element, 3 dyadic quantities; second day on a later or on the same date) x period {none, one day}; per input ~20 commands are run and the relations of the property are checked between their parsed outputs in exact decimal arithmetic. A case is non-trivial when the log has at least two entries.",
		Assumptions: commonAssumptions},
	"C05": {Level: "model_checking", QuickS: 150, ThoroughS: 1500, NeedBin: true,
		Rule: "16 inputs (all subsets of: value ties, several unresolved foods, three days, deep chain at the depth limit) x 26 command shapes x map iteration orders: every permutation at every single dynamic visit of a ranged map (quick: 1 deviating visit, thorough: 2) plus three persistent policies (reverse / rotate / swap at every visit); oracle = byte-identical stdout, error text and status versus the sorted-order run. A case is non-trivial when at least one visited map was delivered in a non-sorted order.",
		Assumptions: commonAssumptions},
	"C06": {Level: "model_checking", QuickS: 150, ThoroughS: 1500, NeedBin: true,
		Rule: "logs = every sequence of <= 2 (thorough 3) days over the window 2021/01/23..27 and the keyword boundary dates, any order, repetition allowed x every (begin,end) pair over {absent, window dates, today, yesterday, last7, last30, boundary dates} x 8 period-aware commands + summary DATE x flag position {global, sub-command, sub-command over a global decoy} x 5 time zones (quick: position/TZ as <=1 deviation each; thorough: full product on the window). Differential oracle: same command on the log with the other days deleted and no period. A case is non-trivial when the period selects some but not all days.",
		Assumptions: commonAssumptions},
	"C03": {Level: "model_checking", QuickS: 150, ThoroughS: 1500, NeedBin: true,
		Rule: "every subset of the 14 category paths of depth <= 3 over segments {a,b} (thorough: also every set of <= 4 of the 39 paths over {a,b,c}) as the logged foods, the i-th path logged with quantity 2^i so every printed amount identifies the foods it sums, x {default, --collapse, --collapse-last} x {all foods, -s X} x sign/order/two-day passes. A case is non-trivial when at least two foods are shown.",
		Assumptions: commonAssumptions},
	"C02": {Level: "model_checking", QuickS: 120, ThoroughS: 1200, NeedBin: true,
		Rule: "5 books (flat, empty recipe, nested, element also logged directly, mixed sign) x every first day of <= 3 entries over 4 foods x 5 quantities (x optional second day, earlier or repeated date) x {default, left-aligned, old register, summary}; every output is parsed and compared with the reference register computed in exact rationals. A case (book, log) is non-trivial when a food repeats within a day or the log has more than one day.",
		Assumptions: commonAssumptions},
	"C01": {Level: "model_checking", QuickS: 90, ThoroughS: 1200,
		Rule: "all acyclic books of k recipes (ordered ingredient lists of length <= L over later recipes and 2 leaves, repetitions allowed, coefficients from a dyadic alphabet) x 2 namings (topological = alphabetical / reversed) x both resolve entry points x every visiting order of every ranged map; oracle = exact big.Rat path sums. A case is non-trivial when at least one recipe references another recipe.",
		Assumptions: commonAssumptions},
	"C11": {Level: "model_checking", QuickS: 60, ThoroughS: 900,
		Rule: "all directed ingredient graphs on k recipes + 1 leaf (every subset of names as ingredient set, self-reference and cycles included) x depth limit N x both resolve entry points x every visiting order of the recipe map (explorer-chosen permutation); plus chains of every length around N under all/rotated orders. A case (graph,N,api) is non-trivial when it has at least one recipe-to-recipe reference.",
		Assumptions: commonAssumptions},
}
