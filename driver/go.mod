module verif/driver

go 1.23
